/* Scenario player: interprets a line-based scenario against the real library and writes an event log.
 * usage: player <scenario> <events.jsonl>
 * One scenario = one process. The scenario language is documented in /verif/DESIGN.md §3.5 and in vlib/scen.py. */
#define _GNU_SOURCE
#include <stdio.h>
#include <stdlib.h>
#include <string.h>
#include <unistd.h>
#include <signal.h>
#include <malloc.h>
#include <time.h>
#include <sched.h>
#include <sys/stat.h>
#include <sys/prctl.h>
#include "hx.h"
#include "bidib.h"

#define NOINST __attribute__((no_instrument_function))

extern __thread const char *hx_curcall;
extern void bidib_set_lowlevel_debug_mode(bool);
extern uint8_t *bidib_read_intern_message(void) __attribute__((weak));
extern int hx_thread_create(pthread_t *th, void *(*fn)(void *), void *arg, int role, const char *routine, int is_lib);
extern void mon_dump_log(int last);
extern void mon_report_contracts(void);
extern size_t __sanitizer_get_current_allocated_bytes(void) __attribute__((weak));
extern void single_getter_step(const char *kind, const char *id, const char *id2);

static atomic_int watchdog_ms = 60000;
static atomic_int finished = 0;
static int session_running = 0;

/* ------------------------------------------------------------------ big event writer (snapshots) */
NOINST void ev_big(const char *head, const char *body) {
	size_t n = strlen(head) + strlen(body) + 64;
	char *line = malloc(n);
	/* goes through the same sequence counter so that ordering against other events is exact */
	extern void ev_raw(const char *prefix_free_body);
	snprintf(line, n, "%s%s", head, body);
	ev_raw(line);
	free(line);
}

/* ------------------------------------------------------------------ argument helpers */
NOINST long arg_int(const char *tok, int *err) {
	char *e; long v = strtol(tok, &e, 0);
	if (*e) *err = 1;
	return v;
}
NOINST char *arg_str(const char *tok, int *err) {
	if (!strcmp(tok, "@null")) return NULL;
	if (strncmp(tok, "s:", 2)) { *err = 1; return NULL; }
	size_t n = strlen(tok + 2);
	char *p = malloc(n + 1); memcpy(p, tok + 2, n + 1);
	return p;
}
NOINST uint8_t *arg_bytes(const char *tok, size_t *len, int *err) {
	*len = 0;
	if (!strcmp(tok, "@null")) return NULL;
	if (strncmp(tok, "h:", 2)) { *err = 1; return NULL; }
	size_t n = strlen(tok + 2);
	if (n % 2) { *err = 1; return NULL; }
	uint8_t *p = malloc(n / 2);        /* exact size: any over-read is an ASan report */
	for (size_t i = 0; i < n / 2; i++) { unsigned v; if (sscanf(tok + 2 + 2 * i, "%2x", &v) != 1) { *err = 1; break; } p[i] = (uint8_t)v; }
	*len = n / 2;
	return p;
}

/* ------------------------------------------------------------------ watchdog */
NOINST static void *watchdog(void *arg) {
	(void)arg;
	hx_role = ROLE_HARNESS;
	int waited = 0;
	while (!finished && waited < watchdog_ms) {
		__real_usleep(20000); waited += 20;
		if (waited % 500 == 0) {
			/* a call that allocates without end (a loop that never terminates and queues something every round) would take the machine - and
			 * every other check running on it - down long before the watchdog expires: 2 GB resident is a runaway (normal runs stay below 0.3 GB) */
			FILE *f = fopen("/proc/self/statm", "r"); long tot = 0, res = 0;
			if (f) { if (fscanf(f, "%ld %ld", &tot, &res) != 2) res = 0; fclose(f); }
			if (res > (2L << 30) / 4096) {
				mon_dump_log(20);
				ev("\"e\":\"hang\",\"cycle\":0,\"why\":\"call %s: resident memory %ld MB and growing - runaway allocation\"", hx_curcall, res * 4096 >> 20);
				_exit(98);
			}
		}
	}
	if (finished) return NULL;
	char cyc[1024];
	int c = mon_find_cycle(cyc, sizeof cyc);
	mon_dump_all("watchdog");
	mon_dump_log(40);
	if (c) hx_violation("deadlock", "wait-for cycle: %s", cyc);
	ev("\"e\":\"hang\",\"cycle\":%d,\"ms\":%d", c, (int)watchdog_ms);
	_exit(98);
}
NOINST static void on_crash(int sig) {
	static volatile int once = 0;
	if (once++) _exit(99);
	ev("\"e\":\"crash\",\"sig\":%d,\"call\":\"%s\"", sig, hx_curcall);
	_exit(99);
}

/* ------------------------------------------------------------------ steps */
NOINST static size_t heap_bytes(void) {
	if (__sanitizer_get_current_allocated_bytes) return __sanitizer_get_current_allocated_bytes();
	struct mallinfo2 mi = mallinfo2();
	return mi.uordblks;
}
#include <dirent.h>
/* open file descriptors of the process (the directory stream's own fd is not counted) */
NOINST static int open_fds(void) {
	DIR *d = opendir("/proc/self/fd"); if (!d) return -1;
	int n = 0; struct dirent *e;
	while ((e = readdir(d))) if (e->d_name[0] != '.') n++;
	closedir(d);
	return n - 1;
}
NOINST static void check_balance(const char *what) {
	if (mon_held_count()) {
		char d[512]; mon_held_describe(d, sizeof d);
		hx_violation("unbalanced", "%s returned with locks still held: %s", what, d);
	}
}
NOINST static int split(char *line, char **argv, int max) {
	int n = 0; char *s = line, *tok;
	while (n < max && (tok = strsep(&s, " \t\r\n"))) { if (*tok) argv[n++] = tok; }
	return n;
}
NOINST static void drain_queue(const char *qname, uint8_t *(*rd)(void), int limit) {
	uint8_t *m; int k = 0;
	while ((limit <= 0 || k < limit) && (m = rd()) != NULL) {
		char hx[600]; size_t n = (size_t)m[0] + 1; hexstr(hx, m, n > 290 ? 290 : n);
		ev("\"e\":\"q\",\"q\":\"%s\",\"msg\":\"%s\"", qname, hx);
		free(m); k++;
	}
	check_balance(qname);
}

typedef struct { int idx, nlines; char **lines; pthread_barrier_t *bar; } worker_t;
NOINST static int exec_step(int argc, char **argv);

extern __thread int hx_widx;
extern atomic_int sp_paused, sp_release;
extern void mon_pause_arm(int kind, int val, int k, int fn);
extern int mon_pause_disarm(void);
extern int bus_is_quiescent(void);
static atomic_int worker_done[64];
static int pause_kind = 0, pause_val = 0;

NOINST static void *worker_main(void *p) {
	worker_t *w = p;
	hx_widx = w->idx;
	pthread_barrier_wait(w->bar);
	for (int i = 0; i < w->nlines; i++) {
		char *dup = strdup(w->lines[i]);
		size_t maxtok = strlen(dup) / 2 + 4;
		char **av = malloc(sizeof(char *) * maxtok);
		int ac = split(dup, av, (int)maxtok);
		if (ac) exec_step(ac, av);
		free(av); free(dup);
	}
	worker_done[w->idx] = 1;
	return NULL;
}

static atomic_int lib_down = 0;      /* the last start failed (the library has stopped itself): API steps other than start/stop are outside every property */
NOINST static int exec_step(int argc, char **argv) {
	const char *op = argv[0];
	if (lib_down && (!strcmp(op, "call") || !strcmp(op, "get") || !strcmp(op, "snap") || !strcmp(op, "keep") || !strcmp(op, "flush") || !strcmp(op, "readm") || !strcmp(op, "reade") || !strcmp(op, "drain"))) {
		static atomic_int told = 0;
		if (!atomic_exchange(&told, 1)) ev("\"e\":\"skipped_not_running\",\"step\":\"%s\"", op);
		return 0;
	}
	if (!strcmp(op, "call") && argc >= 2) {
		char res[1200];
		hx_curcall = argv[1];
		ev("\"e\":\"call\",\"f\":\"%s\",\"argc\":%d", argv[1], argc - 2);
		int rc = dispatch_call(argv[1], argc - 2, argv + 2, res, sizeof res);
		if (rc == -1) { ev("\"e\":\"harness_error\",\"why\":\"unknown function %s\"", argv[1]); hx_curcall = "-"; return 2; }
		if (rc == -2) { ev("\"e\":\"harness_error\",\"why\":\"bad arguments for %s\"", argv[1]); hx_curcall = "-"; return 2; }
		ev("\"e\":\"ret\",\"f\":\"%s\",\"r\":%s", argv[1], res);
		check_balance(argv[1]);
		hx_curcall = "-";
		return 0;
	}
	if (!strcmp(op, "flush")) { hx_curcall = "bidib_flush"; bidib_flush(); check_balance("bidib_flush"); hx_curcall = "-"; ev("\"e\":\"flushed\""); return 0; }
	if (!strcmp(op, "up") && argc >= 2) {
		uint8_t pl[600]; size_t n = 0;
		for (int i = 1; i < argc; i++) {
			size_t l = strlen(argv[i]) / 2;
			if (n + l > sizeof pl) return 2;
			for (size_t k = 0; k < l; k++) { unsigned v; sscanf(argv[i] + 2 * k, "%2x", &v); pl[n++] = (uint8_t)v; }
		}
		bus_push_packet(pl, n);
		return 0;
	}
	if (!strcmp(op, "raw")) {
		int16_t *it = malloc(sizeof *it * (size_t)(argc > 1 ? argc : 1) * 1); size_t n = 0;
		/* tokens: hex byte strings (any length) or "--" for a poll that finds no data */
		size_t cap = 0; for (int i = 1; i < argc; i++) cap += !strncmp(argv[i], "--", 2) && argv[i][2] ? (size_t)atoi(argv[i] + 2) + 1 : strlen(argv[i]);
		it = realloc(it, sizeof *it * (cap + 4));
		for (int i = 1; i < argc; i++) {
			if (!strcmp(argv[i], "--")) { it[n++] = -1; continue; }
			if (!strncmp(argv[i], "--", 2)) { for (int q = atoi(argv[i] + 2); q > 0; q--) it[n++] = -1; continue; }   /* "--<n>": n consecutive polls that find no data */
			size_t l = strlen(argv[i]) / 2;
			for (size_t k = 0; k < l; k++) { unsigned v; sscanf(argv[i] + 2 * k, "%2x", &v); it[n++] = (int16_t)v; }
		}
		bus_push_raw(it, n); free(it);
		return 0;
	}
	if (!strcmp(op, "quiesce")) { int r = bus_wait_quiescent(argc >= 2 ? atoi(argv[1]) : 30000); ev("\"e\":\"quiet\",\"timeout\":%d", r); return 0; }
	if (!strcmp(op, "readm")) { drain_queue("msg", bidib_read_message, 1); return 0; }
	if (!strcmp(op, "reade")) { drain_queue("err", bidib_read_error_message, 1); return 0; }
	if (!strcmp(op, "drain")) {
		hx_curcall = "bidib_read_message"; drain_queue("msg", bidib_read_message, 0);
		hx_curcall = "bidib_read_error_message"; drain_queue("err", bidib_read_error_message, 0);
		if (argc >= 2 && !strcmp(argv[1], "intern") && bidib_read_intern_message) drain_queue("int", bidib_read_intern_message, 0);
		hx_curcall = "-";
		ev("\"e\":\"drained\"");
		return 0;
	}
	if (!strcmp(op, "snap")) { hx_curcall = "getters"; snap_full(argc >= 2 ? argv[1] : ""); check_balance("getters"); hx_curcall = "-"; return 0; }
	if (!strcmp(op, "get") && argc >= 3) {
		hx_curcall = "getter";
		single_getter_step(argv[1], !strcmp(argv[2], "@null") ? NULL : argv[2], argc >= 4 ? (!strcmp(argv[3], "@null") ? NULL : argv[3]) : NULL);
		check_balance("getter"); hx_curcall = "-";
		return 0;
	}
	if (!strcmp(op, "keep") && argc >= 2) { snap_keep_and_check(argv[1]); return 0; }
	if (!strcmp(op, "logerr") && argc >= 2) { extern atomic_int mon_log_errors; mon_log_errors = atoi(argv[1]); return 0; }
	if (!strcmp(op, "dumplog")) { mon_dump_log(argc >= 2 ? atoi(argv[1]) : 40); return 0; }
	if (!strcmp(op, "settle")) {
		/* like quiesce, but also satisfied when the receiver is serialised behind a lock some other thread holds (directed pause scenarios) */
		extern int mon_receiver_blocked(void);
		int max_us = (argc >= 2 ? atoi(argv[1]) : 5000) * 1000, w = 0, st = 0, why = 0;
		while (w < max_us) {
			if (bus_is_quiescent()) { if (++st >= 3) { why = 1; break; } }
			else if (mon_receiver_blocked()) { if (++st >= 3) { why = 2; break; } }
			else st = 0;
			__real_usleep(50); w += 50;
		}
		ev("\"e\":\"settled\",\"why\":%d", why);
		return 0;
	}
	if (!strcmp(op, "waitpaused")) {
		/* returns when the pause target is paused, or when it can no longer reach the pause point (its work is done) */
		int max_us = (argc >= 2 ? atoi(argv[1]) : 5000) * 1000, w = 0, gone = 0;
		while (sp_paused != 1 && w < max_us) {
			if (pause_kind == 2 && worker_done[pause_val & 63]) { gone = 1; break; }
			if (pause_kind == 1 && pause_val == ROLE_RECEIVER && bus_is_quiescent()) { if (++gone >= 3) break; } else gone = 0;
			__real_usleep(50); w += 50;
		}
		ev("\"e\":\"waitpaused\",\"paused\":%d,\"gone\":%d", sp_paused == 1, gone != 0);
		return 0;
	}
	if (!strcmp(op, "release")) {
		int was = sp_paused;
		int cnt = mon_pause_disarm();
		for (int w = 0; was == 1 && sp_paused == 1 && w < 2000000; w += 50) __real_usleep(50);
		ev("\"e\":\"sched\",\"points\":%d,\"paused\":%d", cnt, was != 0);
		return 0;
	}
	if (!strcmp(op, "mark")) { ev("\"e\":\"mark\",\"m\":\"%s\",\"vt\":%lld", argc >= 2 ? argv[1] : "", (long long)vt_usec); return 0; }
	if (!strcmp(op, "sleepreal") && argc >= 2) { __real_usleep(atoi(argv[1])); return 0; }
	if (!strcmp(op, "yield")) { sched_yield(); return 0; }
	if (!strcmp(op, "advance") && argc >= 2) { vt_advance_us((int64_t)(atof(argv[1]) * 1e6)); ev("\"e\":\"advance\",\"vt\":%lld", (long long)vt_usec); return 0; }
	return -1;
}

NOINST static int exec_main_step(int argc, char **argv, FILE *f) {
	const char *op = argv[0];
	int r = exec_step(argc, argv);
	if (r >= 0) return r;
	if (!strcmp(op, "seed") && argc >= 2) { mon_init(strtoull(argv[1], NULL, 0)); return 0; }
	if (!strcmp(op, "perturb") && argc >= 2) { mon_perturb = atoi(argv[1]); return 0; }
	if (!strcmp(op, "vtlimit") && argc >= 2) { extern int vt_call_limit_s; vt_call_limit_s = atoi(argv[1]); return 0; }
	if (!strcmp(op, "evmax") && argc >= 2) { extern size_t ev_max_bytes; ev_max_bytes = (size_t)atoi(argv[1]) << 20; return 0; }
	if (!strcmp(op, "watchdog") && argc >= 2) { watchdog_ms = atoi(argv[1]); return 0; }
	if (!strcmp(op, "contracts") && argc >= 2) { mon_contracts_on = atoi(argv[1]); return 0; }
	if (!strcmp(op, "arm") && argc >= 2) { mon_armed = atoi(argv[1]); return 0; }
	if (!strcmp(op, "debug") && argc >= 2) { bidib_set_lowlevel_debug_mode(atoi(argv[1]) != 0); return 0; }
	if (!strcmp(op, "pause") && argc >= 3) {
		/* pause recv|af|main|w<i> <k> [fn] */
		int kind = 1, val = ROLE_RECEIVER;
		if (!strcmp(argv[1], "recv")) { kind = 1; val = ROLE_RECEIVER; }
		else if (!strcmp(argv[1], "af")) { kind = 1; val = ROLE_AUTOFLUSH; }
		else if (!strcmp(argv[1], "main")) { kind = 3; val = 0; }
		else if (argv[1][0] == 'w') { kind = 2; val = atoi(argv[1] + 1); }
		else return 2;
		pause_kind = kind; pause_val = val;
		for (int i = 0; i < 64; i++) worker_done[i] = 0;
		mon_pause_arm(kind, val, atoi(argv[2]), argc >= 4 && !strcmp(argv[3], "fn"));
		return 0;
	}
	if (!strcmp(op, "bus")) { if (bus_config_line(argc, argv)) { ev("\"e\":\"harness_error\",\"why\":\"bad bus line\""); return 2; } return 0; }
	if (!strcmp(op, "start") && argc >= 3) {
		const char *dir = !strcmp(argv[1], "@null") ? NULL : argv[1];
		size_t h0 = heap_bytes();
		hx_curcall = "bidib_start_pointer";
		ev("\"e\":\"call\",\"f\":\"bidib_start_pointer\",\"dir\":\"%s\",\"fi\":%d,\"heap\":%zu", dir ? dir : "@null", atoi(argv[2]), h0);
		int rc = bidib_start_pointer(argc >= 4 && !strcmp(argv[3], "nullread") ? NULL : bus_read_cb, bus_write_cb, dir, (unsigned)atoi(argv[2]));
		ev("\"e\":\"ret\",\"f\":\"bidib_start_pointer\",\"r\":%d,\"live_threads\":%d,\"heap\":%zu,\"vt\":%lld", rc, mon_live_lib_threads(), heap_bytes(), (long long)vt_usec);
		check_balance("bidib_start_pointer");
		hx_curcall = "-";
		if (rc == 0) { session_running = 1; mon_armed = 1; lib_down = 0; } else if (mon_live_lib_threads() == 0) lib_down = 1;
		return 0;
	}
	if (!strcmp(op, "start_serial") && argc >= 4) {
		/* start_serial <device> <config dir> <flush interval>: device "/dev/simbus" is the simulated bus (see mon.c). Logged like the other start
		 * function (field via), so that every oracle that looks for "the start of a session" sees it */
		const char *dev = !strcmp(argv[1], "@null") ? NULL : argv[1], *dir = !strcmp(argv[2], "@null") ? NULL : argv[2];
		hx_curcall = "bidib_start_serial";
		ev("\"e\":\"call\",\"f\":\"bidib_start_pointer\",\"via\":\"serial\",\"dir\":\"%s\",\"fi\":%d,\"heap\":%zu", dir ? dir : "@null", atoi(argv[3]), heap_bytes());
		int rc = bidib_start_serial(dev, dir, (unsigned)atoi(argv[3]));
		ev("\"e\":\"ret\",\"f\":\"bidib_start_pointer\",\"via\":\"serial\",\"r\":%d,\"live_threads\":%d,\"heap\":%zu,\"vt\":%lld", rc, mon_live_lib_threads(), heap_bytes(), (long long)vt_usec);
		check_balance("bidib_start_serial"); hx_curcall = "-";
		if (rc == 0) { session_running = 1; mon_armed = 1; lib_down = 0; } else if (mon_live_lib_threads() == 0) lib_down = 1;
		return 0;
	}
	if (!strcmp(op, "stop")) {
		mon_armed = 0;
		hx_curcall = "bidib_stop";
		ev("\"e\":\"call\",\"f\":\"bidib_stop\",\"heap\":%zu", heap_bytes());
		bidib_stop();
		ev("\"e\":\"ret\",\"f\":\"bidib_stop\",\"r\":null,\"live_threads\":%d,\"heap\":%zu", mon_live_lib_threads(), heap_bytes());
		check_balance("bidib_stop");
		hx_curcall = "-";
		session_running = 0;
		return 0;
	}
	if (!strcmp(op, "reset") && lib_down) { ev("\"e\":\"skipped_not_running\",\"step\":\"reset\""); return 0; }
	if (!strcmp(op, "reset")) {
		/* README: nothing may run concurrently with bidib_send_sys_reset; contract monitor disarmed meanwhile */
		int was = mon_armed; mon_armed = 0;
		hx_curcall = "bidib_send_sys_reset";
		ev("\"e\":\"call\",\"f\":\"bidib_send_sys_reset\"");
		bidib_send_sys_reset(0);
		ev("\"e\":\"ret\",\"f\":\"bidib_send_sys_reset\",\"r\":null");
		check_balance("bidib_send_sys_reset"); hx_curcall = "-";
		mon_armed = was;
		return 0;
	}
	if (!strcmp(op, "cfgfile") && argc >= 3) {
		/* cfgfile <relative path> <hex content>: scenarios carry their configuration files, so a replay is self-contained */
		char path[512]; snprintf(path, sizeof path, "%s", argv[1]);
		for (char *c = path + 1; *c; c++) if (*c == '/') { *c = 0; mkdir(path, 0755); *c = '/'; }
		FILE *cf = fopen(path, "wb");
		if (!cf) { ev("\"e\":\"harness_error\",\"why\":\"cannot write %s\"", path); return 2; }
		const char *hx = argv[2]; size_t L = strlen(hx) / 2;
		if (strcmp(hx, "-")) for (size_t i = 0; i < L; i++) { unsigned v; sscanf(hx + 2 * i, "%2x", &v); fputc((int)v, cf); }
		fclose(cf);
		return 0;
	}
	if (!strcmp(op, "heap")) { ev("\"e\":\"heap\",\"tag\":\"%s\",\"bytes\":%zu,\"fds\":%d", argc >= 2 ? argv[1] : "", heap_bytes(), open_fds()); return 0; }
	if (!strcmp(op, "par") && argc >= 2) {
		int nt = atoi(argv[1]); if (nt < 1 || nt > 64) return 2;
		worker_t *ws = calloc((size_t)nt, sizeof *ws);
		char *line = NULL; size_t cap = 0;
		while (getline(&line, &cap, f) > 0) {
			if (!strncmp(line, "endpar", 6)) break;
			if (line[0] != 't' || line[1] != ' ') continue;
			char *e; long k = strtol(line + 2, &e, 10);
			if (k < 0 || k >= nt) continue;
			while (*e == ' ') e++;
			size_t L = strlen(e); while (L && (e[L - 1] == '\n' || e[L - 1] == '\r')) e[--L] = 0;
			ws[k].lines = realloc(ws[k].lines, sizeof(char *) * (size_t)(ws[k].nlines + 1));
			ws[k].lines[ws[k].nlines++] = strdup(e);
		}
		free(line);
		pthread_barrier_t bar; pthread_barrier_init(&bar, NULL, (unsigned)nt);
		pthread_t *th = calloc((size_t)nt, sizeof *th);
		ev("\"e\":\"par_begin\",\"threads\":%d", nt);
		for (int i = 0; i < nt; i++) { ws[i].idx = i; ws[i].bar = &bar; hx_thread_create(&th[i], worker_main, &ws[i], ROLE_WORKER, "worker", 0); }
		for (int i = 0; i < nt; i++) __real_pthread_join(th[i], NULL);
		ev("\"e\":\"par_end\"");
		for (int i = 0; i < nt; i++) { for (int k = 0; k < ws[i].nlines; k++) free(ws[i].lines[k]); free(ws[i].lines); }
		free(ws); free(th); pthread_barrier_destroy(&bar);
		return 0;
	}
	ev("\"e\":\"harness_error\",\"why\":\"unknown step %s\"", op);
	return 2;
}

int main(int argc, char **argv) {
	if (argc < 3) { fprintf(stderr, "usage: player <scenario> <events>\n"); return 2; }
	prctl(PR_SET_PDEATHSIG, SIGKILL);      /* never outlive the check that started us */
	ev_open(argv[2]);
	mon_init(1);
	FILE *f = fopen(argv[1], "r");
	if (!f) { perror(argv[1]); return 2; }
	/* first pass: watchdog line must be honoured before the watchdog starts */
	{ char l[256]; while (fgets(l, sizeof l, f)) if (!strncmp(l, "watchdog ", 9)) watchdog_ms = atoi(l + 9); rewind(f); }
	if (!(__sanitizer_get_current_allocated_bytes)) { signal(SIGSEGV, on_crash); signal(SIGBUS, on_crash); signal(SIGFPE, on_crash); signal(SIGABRT, on_crash); }
	pthread_t wd; __real_pthread_create(&wd, NULL, watchdog, NULL);
	char *line = NULL; size_t cap = 0; int rc = 0; long steps = 0;
	while (getline(&line, &cap, f) > 0) {
		if (line[0] == '#') continue;
		size_t maxtok = strlen(line) / 2 + 4;
		char **av = malloc(sizeof(char *) * maxtok);
		int ac = split(line, av, (int)maxtok);
		if (!ac) { free(av); continue; }
		steps++;
		int r = exec_main_step(ac, av, f);
		free(av);
		if (r == 2) { rc = 2; break; }
	}
	free(line); fclose(f);
	hx_curcall = "bidib_stop(at exit)";
	if (session_running) { mon_armed = 0; bidib_stop(); }
	mon_report_edges();
	mon_report_contracts();
	mon_thread_summary();
	extern atomic_long log_lines;
	ev("\"e\":\"end\",\"steps\":%ld,\"viol\":%d,\"tx_msgs\":%ld,\"tx_bytes\":%ld,\"rx_pkts\":%ld,\"log_lines\":%ld,\"heap\":%zu", steps, (int)hx_violations, bus_tx_msgs, bus_tx_bytes, bus_rx_pkts, (long)log_lines, heap_bytes());
	finished = 1;
	__real_pthread_join(wd, NULL);
	return rc;
}
