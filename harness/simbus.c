/* Simulated BiDiB bus living behind the two user callbacks of bidib_start_pointer.
 * write side: reference decoder of the downlink, event log, node model that answers requests.
 * read side : byte queue with scripted gaps, packet brackets for the atomicity oracles. */
#define _GNU_SOURCE
#include <stdio.h>
#include <stdlib.h>
#include <string.h>
#include <errno.h>
#include <time.h>
#include "hx.h"
#include "bidib_messages.h"

#define NOINST __attribute__((no_instrument_function))

static pthread_mutex_t bmx = PTHREAD_MUTEX_INITIALIZER;
static int idle_fill = -1;          /* bus idlefill <hex byte>|off: byte the read callback delivers whenever nothing else is queued */
static pthread_cond_t bcond_in = PTHREAD_COND_INITIALIZER;    /* input arrived */
static pthread_cond_t bcond_idle = PTHREAD_COND_INITIALIZER;  /* receiver found the queue empty */

/* ---- input queue ---- */
static int16_t *inq = NULL; static size_t in_len = 0, in_pos = 0, in_cap = 0;
typedef struct { size_t end; long id; } pktmark_t;
static pktmark_t *marks = NULL; static size_t nmarks = 0, mark_pos = 0, marks_cap = 0;
static atomic_long next_pkt_id = 1;
static long last_consumed_pkt = 0, pending_done_pkt = 0;
static int idle_polls = 0;
static int receiver_alive = 0;
volatile long bus_tx_msgs = 0, bus_tx_bytes = 0, bus_rx_pkts = 0;
static int log_rx_brackets = 1;

NOINST uint8_t crc8_update(uint8_t crc, uint8_t b) {
	/* CRC-8 Dallas/Maxim: poly x^8+x^5+x^4+1, reflected (0x8C), computed bitwise (not from the library's table) */
	crc ^= b;
	for (int i = 0; i < 8; i++) crc = (crc & 1) ? (uint8_t)((crc >> 1) ^ 0x8C) : (uint8_t)(crc >> 1);
	return crc;
}

NOINST static void in_reserve(size_t extra) {
	if (in_pos == in_len) { in_pos = in_len = 0; nmarks = mark_pos = 0; }
	if (in_len + extra > in_cap) { in_cap = (in_len + extra) * 2 + 256; inq = realloc(inq, in_cap * sizeof *inq); }
}
NOINST static long mark_add_locked(long id) {
	if (nmarks + 1 > marks_cap) { marks_cap = marks_cap * 2 + 64; marks = realloc(marks, marks_cap * sizeof *marks); }
	if (id <= 0) id = atomic_fetch_add(&next_pkt_id, 1);
	marks[nmarks].end = in_len; marks[nmarks].id = id; nmarks++;
	return id;
}
NOINST static long push_packet_locked_id(const uint8_t *payload, size_t n, long id);
NOINST static long push_packet_locked(const uint8_t *payload, size_t n) { return push_packet_locked_id(payload, n, 0); }
NOINST static long push_packet_locked_id(const uint8_t *payload, size_t n, long id) {
	in_reserve(2 * n + 6);
	uint8_t crc = 0;
	inq[in_len++] = 0xFE;
	for (size_t i = 0; i <= n; i++) {
		uint8_t b;
		if (i < n) { b = payload[i]; crc = crc8_update(crc, b); } else b = crc;
		if (b == 0xFE || b == 0xFD) { inq[in_len++] = 0xFD; inq[in_len++] = b ^ 0x20; } else inq[in_len++] = b;
	}
	inq[in_len++] = 0xFE;
	id = mark_add_locked(id);
	idle_polls = 0;
	pthread_cond_broadcast(&bcond_in);
	return id;
}
NOINST void bus_push_packet(const uint8_t *payload, size_t n) {
	char hx[1024]; hexstr(hx, payload, n > 500 ? 500 : n);
	/* np: sequence number taken BEFORE the bytes become visible to the receiver (lower bound of the delivery time) */
	/* the event is written BEFORE the bytes become visible to the receiver, so that everything the receiver does with
	 * them comes later in the log */
	long id = atomic_fetch_add(&next_pkt_id, 1);
	unsigned long long np = ev_seq();
	ev("\"e\":\"up\",\"pkt\":%ld,\"np\":%llu,\"payload\":\"%s\"", id, np, hx);
	__real_pthread_mutex_lock(&bmx);
	push_packet_locked_id(payload, n, id);
	__real_pthread_mutex_unlock(&bmx);
}
NOINST void bus_push_raw(const int16_t *items, size_t n) {
	long id = atomic_fetch_add(&next_pkt_id, 1);
	ev("\"e\":\"upraw\",\"pkt\":%ld,\"len\":%zu", id, n);
	__real_pthread_mutex_lock(&bmx);
	in_reserve(n);
	memcpy(inq + in_len, items, n * sizeof *items); in_len += n;
	mark_add_locked(id);
	idle_polls = 0;
	pthread_cond_broadcast(&bcond_in);
	__real_pthread_mutex_unlock(&bmx);
}

NOINST uint8_t bus_read_cb(int *ok) {
	uint8_t b = 0; long consumed = 0, done = 0; int fill = 0;
	if (hx_role == ROLE_RECEIVER && mon_held_count() > 0) {
		/* the receiver is back at the read callback: whatever it handled last has returned, nothing may still be held */
		static atomic_int reported = 0;
		if (!atomic_exchange(&reported, 1)) { char d[512]; mon_held_describe(d, sizeof d); hx_violation("unbalanced", "receiver thread polls the read callback while holding %s", d); }
	}
	__real_pthread_mutex_lock(&bmx);
	if (pending_done_pkt) { done = pending_done_pkt; pending_done_pkt = 0; }
	if (in_pos < in_len) {
		int16_t it = inq[in_pos++];
		if (it < 0) { *ok = 0; }
		else { b = (uint8_t)it; *ok = 1; bus_tx_bytes += 0; }
		idle_polls = 0;
		while (mark_pos < nmarks && marks[mark_pos].end <= in_pos) { consumed = marks[mark_pos].id; mark_pos++; bus_rx_pkts++; }
		if (consumed) { last_consumed_pkt = consumed; pending_done_pkt = consumed; }
	} else {
		*ok = 0;
		idle_polls++;
		pthread_cond_broadcast(&bcond_idle);
		if (idle_fill >= 0) { *ok = 1; b = (uint8_t)idle_fill; fill = 1; }     /* a line that is never silent: idle delimiters / babble between the packets */
	}
	__real_pthread_mutex_unlock(&bmx);
	if (fill) __real_usleep(30);
	if (log_rx_brackets) {
		if (done) ev("\"e\":\"rxdone\",\"pkt\":%ld", done);
		if (consumed) ev("\"e\":\"rxc\",\"pkt\":%ld", consumed);
	}
	return b;
}
NOINST void bus_receiver_idle_wait(void) {
	struct timespec ts;
	__real_pthread_mutex_lock(&bmx);
	if (in_pos >= in_len) {
		__real_clock_gettime(CLOCK_REALTIME, &ts);
		ts.tv_nsec += 200000; if (ts.tv_nsec >= 1000000000) { ts.tv_sec++; ts.tv_nsec -= 1000000000; }
		pthread_cond_timedwait(&bcond_in, &bmx, &ts);
	}
	__real_pthread_mutex_unlock(&bmx);
}
NOINST void bus_set_receiver_alive(int alive) {
	__real_pthread_mutex_lock(&bmx);
	receiver_alive = alive; idle_polls = 0;
	pthread_cond_broadcast(&bcond_idle);
	__real_pthread_mutex_unlock(&bmx);
}
/* Quiescent: all queued bytes consumed and the receiver has since polled twice and found nothing
 * (it polls again only after it finished dispatching what it read). Logical condition; max_ms is a
 * generous wall-clock guard whose expiry is reported (inconclusive), never a verdict. */
NOINST int bus_wait_quiescent(int max_ms) {
	struct timespec ts, t0, now; int rc = 0;
	__real_clock_gettime(CLOCK_MONOTONIC, &t0);
	__real_pthread_mutex_lock(&bmx);
	while (receiver_alive && !(in_pos >= in_len && idle_polls >= 2)) {
		__real_pthread_mutex_unlock(&bmx);
		if (mon_receiver_blocked_by_me()) { return 0; }
		__real_pthread_mutex_lock(&bmx);
		__real_clock_gettime(CLOCK_MONOTONIC, &now);
		long el = (now.tv_sec - t0.tv_sec) * 1000 + (now.tv_nsec - t0.tv_nsec) / 1000000;
		if (el > max_ms) { rc = 1; break; }
		__real_clock_gettime(CLOCK_REALTIME, &ts);
		ts.tv_nsec += 300000; if (ts.tv_nsec >= 1000000000) { ts.tv_sec++; ts.tv_nsec -= 1000000000; }
		pthread_cond_timedwait(&bcond_idle, &bmx, &ts);
	}
	__real_pthread_mutex_unlock(&bmx);
	if (rc) {
		extern int mon_receiver_blocked(void);
		int blocked = mon_receiver_blocked();       /* waiting for a lock somebody holds: not a matter of machine load */
		if (blocked) mon_dump_all("receiver-blocked");
		ev("\"e\":\"quiesce_timeout\",\"ms\":%d,\"receiver_blocked\":%d", max_ms, blocked);
	}
	return rc;
}

NOINST int bus_is_quiescent(void) {
	__real_pthread_mutex_lock(&bmx);
	int q = !receiver_alive || (in_pos >= in_len && idle_polls >= 2);
	__real_pthread_mutex_unlock(&bmx);
	return q;
}

/* ------------------------------------------------------------------ node model */
#define MAXNODES 64
typedef struct {
	uint8_t addr[3]; uint8_t uid[7];
	int nfeat; uint8_t feat[32][2];
	long long busy_until;
	uint8_t seq;
	int tab_iter;           /* next NODETAB row to hand out, -1 = no iteration in progress */
	int feat_iter;
	uint8_t cs_state, boost_state;
	uint8_t acc_aspect[256];
	int rows_sent_total;
} node_t;
static node_t nodes[MAXNODES]; static int nnodes = 0;
static int bus_answer = 0;
static int bus_cap = 64;
static int feat_echo_diff = 0;
static int tabchange_after = -1;    /* after that many NODETAB rows (overall) announce a table change once */
static int tabchange_done = 0;
static uint8_t tabchange_del[3]; static int tabchange_del_set = 0;
static uint8_t tab_version = 1;
static uint8_t policy[128];         /* 0 answer, 1 alt/NA, 2 never, 3 duplicate */
/* spontaneous traffic tied to the downlink: when the n-th message of a type is seen, a prepared uplink packet is delivered (before the answer) */
typedef struct { uint8_t type; int nth, seen, len, fired; uint8_t payload[300]; } inject_t;
static inject_t injects[32]; static int ninject = 0;
static long txm_index = 0;
static int delay_ms[128];            /* per request type: virtual milliseconds a node needs for one such request (bus delay TT ms) */
typedef struct { long long due; uint8_t addr[3], rt, r[64]; size_t rl; int seq0; long idx; } delayed_t;
#define MAXDELAYED 512
static delayed_t delayed[MAXDELAYED]; static int ndelayed = 0;

NOINST void bus_reset(void) {
	__real_pthread_mutex_lock(&bmx);
	in_pos = in_len = 0; nmarks = mark_pos = 0; idle_polls = 0; pending_done_pkt = 0;
	__real_pthread_mutex_unlock(&bmx);
}
NOINST static int depth_of(const uint8_t *a) { return a[0] == 0 ? 0 : a[1] == 0 ? 1 : a[2] == 0 ? 2 : 3; }
NOINST static node_t *find_node(const uint8_t *a) {
	for (int i = 0; i < nnodes; i++) if (!memcmp(nodes[i].addr, a, 3)) return &nodes[i];
	return NULL;
}
NOINST static int is_child(const node_t *p, const node_t *c) {
	int dp = depth_of(p->addr), dc = depth_of(c->addr);
	if (dc != dp + 1) return 0;
	return memcmp(p->addr, c->addr, dp) == 0;
}
NOINST static int child_count(const node_t *p) { int n = 0; for (int i = 0; i < nnodes; i++) if (is_child(p, &nodes[i])) n++; return n; }
NOINST static node_t *nth_child(const node_t *p, int k) { for (int i = 0; i < nnodes; i++) if (is_child(p, &nodes[i]) && k-- == 0) return &nodes[i]; return NULL; }

NOINST static int parse_addr(const char *s, uint8_t *a) {
	unsigned x = 0, y = 0, z = 0;
	if (sscanf(s, "%u.%u.%u", &x, &y, &z) != 3) return -1;
	a[0] = x; a[1] = y; a[2] = z; return 0;
}
NOINST static int hexbytes(const char *s, uint8_t *out, size_t max) {
	size_t n = strlen(s); if (n % 2 || n / 2 > max) return -1;
	for (size_t i = 0; i < n / 2; i++) { unsigned v; if (sscanf(s + 2 * i, "%2x", &v) != 1) return -1; out[i] = v; }
	return (int)(n / 2);
}
/* scenario lines: bus mode answer|silent ; bus node A.B.C UID14 [n=v,...] ; bus cap N ; bus policy TT answer|na|never|dup ;
 * bus featecho same|diff ; bus tabchange K ; bus clear ; bus brackets 0|1 */
NOINST int bus_config_line(int argc, char **argv) {
	if (argc < 2) return -1;
	if (!strcmp(argv[1], "mode") && argc >= 3) { bus_answer = !strcmp(argv[2], "answer"); return 0; }
	if (!strcmp(argv[1], "inject") && argc >= 5) {
		if (ninject >= 32) return -1;
		inject_t *j = &injects[ninject]; memset(j, 0, sizeof *j);
		j->type = (uint8_t)strtoul(argv[2], NULL, 16); j->nth = atoi(argv[3]);
		j->len = hexbytes(argv[4], j->payload, sizeof j->payload); if (j->len < 0) return -1;
		ninject++; return 0;
	}
	if (!strcmp(argv[1], "clear")) { ninject = 0; nnodes = 0; ndelayed = 0; idle_fill = -1; memset(delay_ms, 0, sizeof delay_ms); memset(policy, 0, sizeof policy); bus_cap = 64; feat_echo_diff = 0; tabchange_after = -1; tabchange_done = 0; bus_answer = 0; return 0; }
	if (!strcmp(argv[1], "idlefill") && argc >= 3) { __real_pthread_mutex_lock(&bmx); idle_fill = !strcmp(argv[2], "off") ? -1 : (int)strtoul(argv[2], NULL, 16); __real_pthread_mutex_unlock(&bmx); return 0; }
	if (!strcmp(argv[1], "delay") && argc >= 4) { unsigned t = strtoul(argv[2], NULL, 16); if (t >= 128) return -1; delay_ms[t] = atoi(argv[3]); return 0; }
	if (!strcmp(argv[1], "cap") && argc >= 3) { bus_cap = atoi(argv[2]); return 0; }
	if (!strcmp(argv[1], "brackets") && argc >= 3) { log_rx_brackets = atoi(argv[2]); return 0; }
	if (!strcmp(argv[1], "featecho") && argc >= 3) { feat_echo_diff = !strcmp(argv[2], "diff"); return 0; }
	if (!strcmp(argv[1], "tabchange") && argc >= 3) {
		/* bus tabchange K [del A.B.C]: the table change is a node that dropped off the bus meanwhile */
		tabchange_after = atoi(argv[2]); tabchange_done = 0; tabchange_del_set = 0;
		if (argc >= 5 && !strcmp(argv[3], "del") && !parse_addr(argv[4], tabchange_del)) tabchange_del_set = 1;
		return 0;
	}
	if (!strcmp(argv[1], "policy") && argc >= 4) {
		unsigned t = strtoul(argv[2], NULL, 16); if (t >= 128) return -1;
		policy[t] = !strcmp(argv[3], "na") ? 1 : !strcmp(argv[3], "never") ? 2 : !strcmp(argv[3], "dup") ? 3 : 0;
		return 0;
	}
	if (!strcmp(argv[1], "node") && argc >= 4) {
		if (nnodes >= MAXNODES) return -1;
		node_t *n = &nodes[nnodes]; memset(n, 0, sizeof *n);
		if (parse_addr(argv[2], n->addr)) return -1;
		if (hexbytes(argv[3], n->uid, 7) != 7) return -1;
		n->seq = 1; n->tab_iter = -1; n->feat_iter = -1;
		if (argc >= 5) {
			char *s = argv[4], *tok;
			while ((tok = strsep(&s, ",")) && n->nfeat < 32) { unsigned a, b; if (sscanf(tok, "%u=%u", &a, &b) == 2) { n->feat[n->nfeat][0] = a; n->feat[n->nfeat][1] = b; n->nfeat++; } }
		}
		nnodes++;
		return 0;
	}
	if (!strcmp(argv[1], "delnode") && argc >= 3) {
		uint8_t a[3]; if (parse_addr(argv[2], a)) return -1;
		for (int i = 0; i < nnodes; i++) if (!memcmp(nodes[i].addr, a, 3)) { nodes[i] = nodes[--nnodes]; return 0; }
		return 0;
	}
	return -1;
}

/* build an uplink message from node addr a */
NOINST static size_t build_up(uint8_t *out, const uint8_t *a, uint8_t seq, uint8_t type, const uint8_t *data, size_t dlen) {
	int d = depth_of(a); size_t k = 1;
	for (int i = 0; i < d; i++) out[k++] = a[i];
	out[k++] = 0; out[k++] = seq; out[k++] = type;
	memcpy(out + k, data, dlen); k += dlen;
	out[0] = (uint8_t)(k - 1);
	return k;
}
NOINST static uint8_t next_seq(node_t *n) { uint8_t s = n->seq; n->seq = (s == 255) ? 1 : s + 1; return s; }

/* called with bmx held; answers one downlink message */
NOINST static void answer(long idx, const uint8_t *addr, uint8_t type, const uint8_t *d, size_t dl) {
	node_t *n = find_node(addr);
	if (!n) return;
	if (type == MSG_SYS_RESET) { for (int i = 0; i < nnodes; i++) { nodes[i].seq = 1; nodes[i].tab_iter = -1; nodes[i].feat_iter = -1; } return; }
	if (type >= 128) return;
	int pol = policy[type];
	if (pol == 2) { ev("\"e\":\"noreply\",\"req\":%ld,\"why\":\"policy-never\"", idx); return; }
	uint8_t rt = 0, r[64]; size_t rl = 0; int have = 1;
	uint8_t seq_override = 0; int use_seq0 = 0;
#define D(i) ((size_t)(i) < dl ? d[i] : 0)
	switch (type) {
	case MSG_SYS_GET_MAGIC: rt = MSG_SYS_MAGIC; r[0] = 0xFE; r[1] = 0xAF; rl = 2; use_seq0 = 1; break;
	case MSG_SYS_GET_P_VERSION: rt = MSG_SYS_P_VERSION; r[0] = 7; r[1] = 0; rl = 2; break;
	case MSG_SYS_GET_UNIQUE_ID: rt = MSG_SYS_UNIQUE_ID; memcpy(r, n->uid, 7); rl = 7; break;
	case MSG_SYS_GET_SW_VERSION: rt = MSG_SYS_SW_VERSION; r[0] = 1; r[1] = 2; r[2] = 3; rl = 3; break;
	case MSG_SYS_PING: rt = MSG_SYS_PONG; r[0] = D(0); rl = 1; break;
	case MSG_SYS_IDENTIFY: rt = MSG_SYS_IDENTIFY_STATE; r[0] = D(0); rl = 1; break;
	case MSG_GET_PKT_CAPACITY: rt = MSG_PKT_CAPACITY; r[0] = (uint8_t)bus_cap; rl = 1; break;
	case MSG_NODETAB_GETALL: rt = MSG_NODETAB_COUNT; r[0] = (uint8_t)(1 + child_count(n)); rl = 1; n->tab_iter = 0; break;
	case MSG_NODETAB_GETNEXT: {
		int total = 1 + child_count(n);
		if (tabchange_after >= 0 && !tabchange_done && n->rows_sent_total >= tabchange_after && n->tab_iter >= 0) {
			/* the node table changed while it was being read: the interface announces a new count */
			tabchange_done = 1; n->tab_iter = -1;
			if (tabchange_del_set) {
				uint8_t self[3]; memcpy(self, n->addr, 3);
				for (int q = 0; q < nnodes; q++) if (!memcmp(nodes[q].addr, tabchange_del, 3)) { nodes[q] = nodes[--nnodes]; break; }
				n = find_node(self);          /* the array was compacted */
				if (!n) return;
				total = 1 + child_count(n);
			}
			rt = MSG_NODETAB_COUNT; r[0] = (uint8_t)total; rl = 1; tab_version++;
			break;
		}
		if (n->tab_iter < 0 || n->tab_iter >= total || pol == 1) { rt = MSG_NODE_NA; r[0] = 255; rl = 1; break; }
		rt = MSG_NODETAB; r[0] = tab_version;
		if (n->tab_iter == 0) { r[1] = 0; memcpy(r + 2, n->uid, 7); }
		else { node_t *c = nth_child(n, n->tab_iter - 1); r[1] = c->addr[depth_of(c->addr) - 1]; memcpy(r + 2, c->uid, 7); }
		rl = 9; n->tab_iter++; n->rows_sent_total++;
		break; }
	case MSG_SYS_GET_ERROR: rt = MSG_SYS_ERROR; r[0] = 0; rl = 1; break;
	case MSG_FW_UPDATE_OP: rt = MSG_FW_UPDATE_STAT; r[0] = 1; r[1] = 0; rl = 2; break;
	case MSG_FEATURE_GETALL: rt = MSG_FEATURE_COUNT; r[0] = (uint8_t)n->nfeat; rl = 1; n->feat_iter = 0; break;
	case MSG_FEATURE_GETNEXT:
		if (n->feat_iter < 0 || n->feat_iter >= n->nfeat || pol == 1) { rt = MSG_FEATURE_NA; r[0] = 255; rl = 1; }
		else { rt = MSG_FEATURE; r[0] = n->feat[n->feat_iter][0]; r[1] = n->feat[n->feat_iter][1]; rl = 2; n->feat_iter++; }
		break;
	case MSG_FEATURE_GET: {
		int f = -1; for (int i = 0; i < n->nfeat; i++) if (n->feat[i][0] == D(0)) f = i;
		if (pol == 1) { rt = MSG_FEATURE_NA; r[0] = D(0); rl = 1; } else { rt = MSG_FEATURE; r[0] = D(0); r[1] = f < 0 ? 0 : n->feat[f][1]; rl = 2; }
		break; }
	case MSG_FEATURE_SET:
		if (pol == 1) { rt = MSG_FEATURE_NA; r[0] = D(0); rl = 1; break; }
		rt = MSG_FEATURE; r[0] = D(0); r[1] = feat_echo_diff ? (uint8_t)(D(1) ^ 1) : D(1); rl = 2; break;
	case MSG_VENDOR_ENABLE: rt = MSG_VENDOR_ACK; r[0] = 1; rl = 1; break;
	case MSG_VENDOR_DISABLE: rt = MSG_VENDOR_ACK; r[0] = 0; rl = 1; break;
	case MSG_VENDOR_SET: rt = MSG_VENDOR; rl = dl > 60 ? 60 : dl; memcpy(r, d, rl); break;
	case MSG_VENDOR_GET: { rt = MSG_VENDOR; size_t nl = D(0); if (nl > 40) nl = 40; r[0] = (uint8_t)nl; memcpy(r + 1, d + 1, nl < dl ? nl : (dl ? dl - 1 : 0)); r[1 + nl] = 1; r[2 + nl] = '0'; rl = nl + 3; break; }
	case MSG_STRING_GET: rt = MSG_STRING; r[0] = D(0); r[1] = D(1); r[2] = 0; rl = 3; break;
	case MSG_STRING_SET: rt = MSG_STRING; rl = dl > 30 ? 30 : dl; memcpy(r, d, rl); break;
	case MSG_BM_GET_RANGE: {
		unsigned s = D(0), e = D(1);
		unsigned bits = e > s ? e - s : 0; if (bits > 128) bits = 128;
		rt = MSG_BM_MULTIPLE; r[0] = (uint8_t)s; r[1] = (uint8_t)bits; memset(r + 2, 0, (bits + 7) / 8); rl = 2 + (bits + 7) / 8; break; }
	case MSG_BM_GET_CONFIDENCE: rt = MSG_BM_CONFIDENCE; r[0] = r[1] = r[2] = 0; rl = 3; break;
	case MSG_BOOST_OFF: n->boost_state = 0x00; rt = MSG_BOOST_STAT; r[0] = n->boost_state; rl = 1; break;
	case MSG_BOOST_ON: n->boost_state = 0x80; rt = MSG_BOOST_STAT; r[0] = n->boost_state; rl = 1; break;
	case MSG_BOOST_QUERY: rt = MSG_BOOST_STAT; r[0] = n->boost_state; rl = 1; break;
	case MSG_ACCESSORY_SET: n->acc_aspect[D(0)] = D(1); /* fallthrough */
	case MSG_ACCESSORY_GET: rt = MSG_ACCESSORY_STATE; r[0] = D(0); r[1] = n->acc_aspect[D(0)]; r[2] = 2; r[3] = 0; r[4] = 0; rl = 5; break;
	case MSG_ACCESSORY_PARA_SET: rt = MSG_ACCESSORY_PARA; rl = dl > 8 ? 8 : dl; memcpy(r, d, rl); break;
	case MSG_ACCESSORY_PARA_GET: rt = MSG_ACCESSORY_PARA; r[0] = D(0); r[1] = D(1); r[2] = 0; rl = 3; break;
	case MSG_LC_OUTPUT:
		if (pol == 1) { rt = MSG_LC_NA; r[0] = D(0); r[1] = D(1); rl = 2; } else { rt = MSG_LC_STAT; r[0] = D(0); r[1] = D(1); r[2] = D(2); rl = 3; }
		break;
	case MSG_LC_CONFIG_SET: case MSG_LC_CONFIG_GET:
		if (pol == 1) { rt = MSG_LC_NA; r[0] = D(0); r[1] = D(1); rl = 2; } else { rt = MSG_LC_CONFIG; memset(r, 0, 6); r[0] = D(0); r[1] = D(1); rl = 6; }
		break;
	case MSG_LC_KEY_QUERY:
		if (pol == 1) { rt = MSG_LC_NA; r[0] = D(0); r[1] = D(1); rl = 2; } else { rt = MSG_LC_KEY; r[0] = D(0); r[1] = 0; rl = 2; }
		break;
	case MSG_LC_PORT_QUERY:
		if (pol == 1) { rt = MSG_LC_NA; r[0] = D(0); r[1] = D(1); rl = 2; } else { rt = MSG_LC_STAT; r[0] = D(0); r[1] = D(1); r[2] = 0; rl = 3; }
		break;
	case MSG_LC_CONFIGX_SET: case MSG_LC_CONFIGX_GET: rt = MSG_LC_CONFIGX; r[0] = D(0); r[1] = D(1); rl = 2; break;
	case MSG_LC_MACRO_HANDLE: rt = MSG_LC_MACRO_STATE; r[0] = D(0); r[1] = D(1); rl = 2; break;
	case MSG_LC_MACRO_SET: case MSG_LC_MACRO_GET: rt = MSG_LC_MACRO; memset(r, 0, 6); r[0] = D(0); r[1] = D(1); rl = 6; break;
	case MSG_LC_MACRO_PARA_SET: case MSG_LC_MACRO_PARA_GET: rt = MSG_LC_MACRO_PARA; memset(r, 0, 6); r[0] = D(0); r[1] = D(1); rl = 6; break;
	case MSG_CS_SET_STATE: if (D(0) != 0xFF) n->cs_state = D(0); rt = MSG_CS_STATE; r[0] = (pol == 1) ? 0x00 /* the command station reports OFF */ : n->cs_state; rl = 1; break;
	case MSG_CS_DRIVE: case MSG_CS_BIN_STATE: rt = MSG_CS_DRIVE_ACK; r[0] = D(0); r[1] = D(1); r[2] = 1; rl = 3; break;
	case MSG_CS_ACCESSORY: rt = MSG_CS_ACCESSORY_ACK; r[0] = D(0); r[1] = D(1); r[2] = 1; rl = 3; break;
	case MSG_CS_POM: rt = MSG_CS_POM_ACK; r[0] = D(0); r[1] = D(1); r[2] = D(2); r[3] = D(3); r[4] = D(4); r[5] = 1; rl = 6; break;
	case MSG_CS_RCPLUS: rt = MSG_CS_RCPLUS_ACK; r[0] = D(0); r[1] = 0; rl = 2; break;
	case MSG_CS_PROG: rt = MSG_CS_PROG_STATE; r[0] = 0x80; r[1] = 0; r[2] = D(1); r[3] = D(2); r[4] = D(3); rl = 5; break;
	default: have = 0; break;
	}
#undef D
	if (!have) return;
	(void)seq_override;
	if (delay_ms[type] > 0 && ndelayed < MAXDELAYED) {
		/* a slow node: it works on one such request at a time, each takes delay_ms of VIRTUAL time; the answer is delivered when the
		 * library's own sleeping has let that much time pass (bus_vt_tick, called from the virtual clock) */
		delayed_t *q = &delayed[ndelayed++];
		long long now = (long long)vt_usec;
		long long start = n->busy_until > now ? n->busy_until : now;
		q->due = start + 1000LL * delay_ms[type]; n->busy_until = q->due;
		memcpy(q->addr, addr, 3); q->rt = rt; q->rl = rl; memcpy(q->r, r, rl); q->seq0 = use_seq0; q->idx = idx;
		ev("\"e\":\"reply_delayed\",\"req\":%ld,\"due_vt\":%lld", idx, q->due);
		return;
	}
	uint8_t msg[96];
	int reps = (pol == 3) ? 2 : 1;
	for (int k = 0; k < reps; k++) {
		size_t ml = build_up(msg, addr, use_seq0 ? 0 : next_seq(n), rt, r, rl);
		long pid = push_packet_locked(msg, ml);
		char hx[256]; hexstr(hx, msg, ml);
		ev("\"e\":\"reply\",\"req\":%ld,\"pkt\":%ld,\"rtype\":%u,\"msg\":\"%s\"", idx, pid, rt, hx);
	}
}

/* virtual time has advanced: deliver the answers of slow nodes that are due (oldest first) */
NOINST void bus_vt_tick(void) {
	if (!ndelayed) return;
	__real_pthread_mutex_lock(&bmx);
	long long now = (long long)vt_usec;
	int k = 0;
	for (int i = 0; i < ndelayed; i++) {
		delayed_t *q = &delayed[i];
		node_t *n = find_node(q->addr);
		if (q->due <= now) {
			if (n) {
				uint8_t msg[96];
				size_t ml = build_up(msg, q->addr, q->seq0 ? 0 : next_seq(n), q->rt, q->r, q->rl);
				long pid = push_packet_locked(msg, ml);
				char hx[256]; hexstr(hx, msg, ml);
				ev("\"e\":\"reply\",\"req\":%ld,\"pkt\":%ld,\"rtype\":%u,\"delayed\":1,\"msg\":\"%s\"", q->idx, pid, q->rt, hx);
			}
		} else delayed[k++] = *q;
	}
	ndelayed = k;
	__real_pthread_mutex_unlock(&bmx);
}

/* ------------------------------------------------------------------ downlink decoder */
static uint8_t dbuf[4096]; static size_t dlen = 0; static int d_inpkt = 0, d_esc = 0;
NOINST static void decode_packet_locked(void) {
	if (dlen < 2) { ev("\"e\":\"txbad\",\"why\":\"short-packet\",\"len\":%zu", dlen); return; }
	uint8_t crc = 0; for (size_t i = 0; i < dlen; i++) crc = crc8_update(crc, dbuf[i]);
	if (crc != 0) { ev("\"e\":\"txbad\",\"why\":\"crc\""); return; }
	size_t n = dlen - 1, i = 0;
	while (i < n) {
		size_t ml = dbuf[i];
		if (ml < 3 || i + ml + 1 > n) { ev("\"e\":\"txbad\",\"why\":\"msg-len\",\"at\":%zu", i); return; }
		const uint8_t *m = dbuf + i;
		uint8_t addr[3] = {0, 0, 0}; size_t k = 1; int dpt = 0;
		while (k <= ml && m[k] != 0 && dpt < 4) { if (dpt < 3) addr[dpt] = m[k]; dpt++; k++; }
		if (k + 2 > ml || dpt > 3) { ev("\"e\":\"txbad\",\"why\":\"addr\",\"at\":%zu", i); return; }
		uint8_t seq = m[k + 1], type = m[k + 2];
		const uint8_t *data = m + k + 3; size_t dl = ml + 1 - (k + 3);
		char hx[600]; hexstr(hx, data, dl > 290 ? 290 : dl);
		long idx = ++txm_index; bus_tx_msgs++;
		ev("\"e\":\"txm\",\"i\":%ld,\"addr\":[%u,%u,%u],\"seq\":%u,\"type\":%u,\"data\":\"%s\"", idx, addr[0], addr[1], addr[2], seq, type, hx);
		for (int q = 0; q < ninject; q++) if (!injects[q].fired && injects[q].type == type && ++injects[q].seen == injects[q].nth) {
			injects[q].fired = 1;
			long pid = push_packet_locked(injects[q].payload, (size_t)injects[q].len);
			char hx2[620]; hexstr(hx2, injects[q].payload, (size_t)injects[q].len);
			ev("\"e\":\"up\",\"pkt\":%ld,\"np\":0,\"injected\":1,\"payload\":\"%s\"", pid, hx2);
		}
		if (bus_answer) answer(idx, addr, type, data, dl);
		i += ml + 1;
	}
}
NOINST void bus_write_cb(uint8_t *bytes, int32_t n) {
	char *hx = malloc((size_t)(n > 0 ? n : 0) * 2 + 1);
	hexstr(hx, bytes, n > 0 ? (size_t)n : 0);
	ev("\"e\":\"tx\",\"len\":%d,\"hex\":\"%s\"", n, hx);
	free(hx);
	__real_pthread_mutex_lock(&bmx);
	bus_tx_bytes += n;
	for (int32_t i = 0; i < n; i++) {
		uint8_t b = bytes[i];
		if (b == 0xFE) {
			if (d_inpkt && dlen > 0) decode_packet_locked();
			d_inpkt = 1; dlen = 0; d_esc = 0;
		} else if (!d_inpkt) {
			/* byte outside a packet */
			ev("\"e\":\"txbad\",\"why\":\"byte-outside-packet\"");
		} else if (b == 0xFD) d_esc = 1;
		else { if (d_esc) { b ^= 0x20; d_esc = 0; } if (dlen < sizeof dbuf) dbuf[dlen++] = b; }
	}
	__real_pthread_mutex_unlock(&bmx);
}
