/* Serialises every getter of the library into one JSON event ("snap").
 * Under valgrind (plain flavour) every field the API makes meaningful is probed for definedness
 * with VALGRIND_GET_VBITS; undefined ones are reported as {"e":"undef","path":...} events and
 * printed as null. The verdict is produced from those events, not from memcheck's own reports. */
#define _GNU_SOURCE
#include <stdio.h>
#include <stdlib.h>
#include <string.h>
#include <valgrind/memcheck.h>
#include "hx.h"
#include "bidib.h"

#define NOINST __attribute__((no_instrument_function))

typedef struct { char *p; size_t n, cap; } sb_t;
NOINST static void sb_put(sb_t *s, const char *fmt, ...) {
	va_list ap; char tmp[512];
	va_start(ap, fmt); int k = vsnprintf(tmp, sizeof tmp, fmt, ap); va_end(ap);
	if (k < 0) return; if ((size_t)k >= sizeof tmp) k = sizeof tmp - 1;
	if (s->n + k + 1 > s->cap) { s->cap = (s->n + k + 1) * 2 + 1024; s->p = realloc(s->p, s->cap); }
	memcpy(s->p + s->n, tmp, k); s->n += k; s->p[s->n] = 0;
}
NOINST static void sb_str(sb_t *s, const char *v) {
	if (!v) { sb_put(s, "null"); return; }
	sb_put(s, "\"");
	for (const char *c = v; *c; c++) {
		if (*c == '"' || *c == '\\') sb_put(s, "\\%c", *c);
		else if ((unsigned char)*c < 32) sb_put(s, "\\u%04x", *c);
		else sb_put(s, "%c", *c);
	}
	sb_put(s, "\"");
}

static __thread long undef_count = 0;
static __thread const char *cur_path = "";
NOINST static int isdef(const void *p, size_t n, const char *field) {
	if (!RUNNING_ON_VALGRIND) return 1;
	unsigned char vb[64];
	if (n > sizeof vb) n = sizeof vb;
	if (VALGRIND_GET_VBITS(p, vb, n) != 1) return 1;
	for (size_t i = 0; i < n; i++) if (vb[i]) {
		undef_count++;
		ev("\"e\":\"undef\",\"path\":\"%s\",\"field\":\"%s\"", cur_path, field);
		return 0;
	}
	return 1;
}
/* integer-like field: print value or null if undefined */
/* raw read (a bool holding garbage must be reported, not be undefined behaviour of the harness) */
NOINST static long rdraw(const void *p, size_t n, int is_signed) {
	unsigned char b[8] = {0}; memcpy(b, p, n > 8 ? 8 : n);
	unsigned long long v = 0; for (size_t i = 0; i < n && i < 8; i++) v |= (unsigned long long)b[i] << (8 * i);
	if (is_signed && n < 8 && (v >> (8 * n - 1)) & 1) v |= ~0ULL << (8 * n);
	return (long)v;
}
#define FI(s, key, lv) do { sb_put(s, "\"%s\":", key); if (isdef(&(lv), sizeof(lv), key)) sb_put(s, "%ld", rdraw(&(lv), sizeof(lv), ((__typeof__(lv))-1) < 0)); else sb_put(s, "null"); } while (0)
#define TRUTH(lv) (rdraw(&(lv), sizeof(lv), 0) != 0)
#define FS(s, key, lv) do { sb_put(s, "\"%s\":", key); if (isdef(&(lv), sizeof(lv), key)) sb_str(s, (lv)); else sb_put(s, "null"); } while (0)
#define COMMA(s) sb_put(s, ",")

NOINST static void ser_pc(sb_t *s, t_bidib_power_consumption *pc) {
	sb_put(s, "\"pc\":{");
	FI(s, "known", pc->known);
	if (isdef(&pc->known, sizeof pc->known, "known") && TRUTH(pc->known)) {
		COMMA(s); FI(s, "overcurrent", pc->overcurrent);
		if (isdef(&pc->overcurrent, sizeof pc->overcurrent, "overcurrent") && !TRUTH(pc->overcurrent)) { COMMA(s); FI(s, "current", pc->current); }
	}
	sb_put(s, "}");
}
NOINST static void ser_board_acc_data(sb_t *s, t_bidib_board_accessory_state_data *d) {
	FS(s, "state_id", d->state_id); COMMA(s); FI(s, "value", d->state_value); COMMA(s);
	FI(s, "exec", d->execution_state); COMMA(s); FI(s, "wait", d->wait_details);
}
NOINST static void ser_dcc_acc_data(sb_t *s, t_bidib_dcc_accessory_state_data *d) {
	FS(s, "state_id", d->state_id); COMMA(s); FI(s, "value", d->state_value); COMMA(s);
	FI(s, "coil_on", d->coil_on); COMMA(s); FI(s, "oct", d->output_controls_timing); COMMA(s);
	FI(s, "ack", d->ack); COMMA(s); FI(s, "time_unit", d->time_unit); COMMA(s); FI(s, "switch_time", d->switch_time);
}
NOINST static void ser_periph_data(sb_t *s, t_bidib_peripheral_state_data *d) {
	FS(s, "state_id", d->state_id); COMMA(s); FI(s, "value", d->state_value); COMMA(s);
	FI(s, "time_unit", d->time_unit); COMMA(s); FI(s, "wait", d->wait);
}
NOINST static void ser_segment_data(sb_t *s, t_bidib_segment_state_data *d) {
	FI(s, "occupied", d->occupied); COMMA(s);
	sb_put(s, "\"conf\":{"); FI(s, "void", d->confidence.conf_void); COMMA(s); FI(s, "freeze", d->confidence.freeze); COMMA(s); FI(s, "nosignal", d->confidence.nosignal); sb_put(s, "},");
	ser_pc(s, &d->power_consumption); COMMA(s);
	sb_put(s, "\"addrs\":");
	if (!isdef(&d->dcc_address_cnt, sizeof d->dcc_address_cnt, "dcc_address_cnt") || !isdef(&d->dcc_addresses, sizeof d->dcc_addresses, "dcc_addresses")) { sb_put(s, "null"); return; }
	sb_put(s, "[");
	for (size_t i = 0; i < d->dcc_address_cnt; i++) {
		t_bidib_dcc_address *a = &d->dcc_addresses[i];
		sb_put(s, "%s{", i ? "," : ""); FI(s, "l", a->addrl); COMMA(s); FI(s, "h", a->addrh); COMMA(s); FI(s, "type", a->type); sb_put(s, "}");
	}
	sb_put(s, "]");
}
NOINST static void ser_reverser_data(sb_t *s, t_bidib_reverser_state_data *d) {
	FS(s, "state_id", d->state_id); COMMA(s); FI(s, "value", d->state_value);
}
NOINST static void ser_decoder(sb_t *s, t_bidib_train_decoder_state *d) {
	sb_put(s, "\"dec\":{");
#define G(kn, k, v) FI(s, kn, d->k); if (isdef(&d->k, sizeof d->k, kn) && TRUTH(d->k)) { COMMA(s); FI(s, #v, d->v); }
	G("signal_quality_known", signal_quality_known, signal_quality) COMMA(s);
	G("temp_known", temp_known, temp_celsius) COMMA(s);
	G("energy_storage_known", energy_storage_known, energy_storage) COMMA(s);
	G("container2_storage_known", container2_storage_known, container2_storage) COMMA(s);
	G("container3_storage_known", container3_storage_known, container3_storage)
#undef G
	sb_put(s, "}");
}
NOINST static void ser_train_data(sb_t *s, t_bidib_train_state_data *d) {
	FI(s, "on_track", d->on_track); COMMA(s); FI(s, "orientation", d->orientation); COMMA(s);
	FI(s, "speed_step", d->set_speed_step); COMMA(s); FI(s, "forwards", d->set_is_forwards); COMMA(s);
	FI(s, "ack", d->ack); COMMA(s); FI(s, "kmh", d->detected_kmh_speed); COMMA(s);
	sb_put(s, "\"periphs\":");
	if (!isdef(&d->peripheral_cnt, sizeof d->peripheral_cnt, "peripheral_cnt") || !isdef(&d->peripherals, sizeof d->peripherals, "peripherals")) sb_put(s, "null");
	else {
		sb_put(s, "[");
		for (size_t i = 0; i < d->peripheral_cnt; i++) { sb_put(s, "%s{", i ? "," : ""); FS(s, "id", d->peripherals[i].id); COMMA(s); FI(s, "state", d->peripherals[i].state); sb_put(s, "}"); }
		sb_put(s, "]");
	}
	COMMA(s); ser_decoder(s, &d->decoder_state);
}
NOINST static void ser_booster_data(sb_t *s, t_bidib_booster_state_data *d) {
	FI(s, "power_state", d->power_state); COMMA(s); FI(s, "simple", d->power_state_simple); COMMA(s);
	ser_pc(s, &d->power_consumption); COMMA(s);
	FI(s, "voltage_known", d->voltage_known);
	if (isdef(&d->voltage_known, sizeof d->voltage_known, "voltage_known") && TRUTH(d->voltage_known)) { COMMA(s); FI(s, "voltage", d->voltage); }
	COMMA(s); FI(s, "temp_known", d->temp_known);
	if (isdef(&d->temp_known, sizeof d->temp_known, "temp_known") && TRUTH(d->temp_known)) { COMMA(s); FI(s, "temp", d->temp_celsius); }
}
NOINST static void ser_idlist(sb_t *s, t_bidib_id_list_query *q) {
	if (!isdef(&q->length, sizeof q->length, "length") || !isdef(&q->ids, sizeof q->ids, "ids")) { sb_put(s, "null"); return; }
	sb_put(s, "[");
	for (size_t i = 0; i < q->length; i++) { if (i) COMMA(s); if (isdef(&q->ids[i], sizeof q->ids[i], "ids[i]")) sb_str(s, q->ids[i]); else sb_put(s, "null"); }
	sb_put(s, "]");
}
#define IDLIST(s, key, call) do { t_bidib_id_list_query q_ = call; sb_put(s, "\"%s\":", key); cur_path = key; ser_idlist(s, &q_); bidib_free_id_list_query(q_); } while (0)

/* ---- single-entity getters; id may be unknown or NULL ---- */
NOINST static void ser_unified(sb_t *s, const char *path, t_bidib_unified_accessory_state_query q) {
	cur_path = path;
	sb_put(s, "{"); FI(s, "known", q.known);
	if (TRUTH(q.known)) {
		COMMA(s); FI(s, "type", q.type); COMMA(s);
		if (q.type == BIDIB_ACCESSORY_BOARD) ser_board_acc_data(s, &q.board_accessory_state); else ser_dcc_acc_data(s, &q.dcc_accessory_state);
	} else {
		/* the free function reads type and the matching state_id even for an unknown id */
		isdef(&q.type, sizeof q.type, "type(read by free)");
		if (q.type == BIDIB_ACCESSORY_BOARD) isdef(&q.board_accessory_state.state_id, sizeof(char *), "state_id(read by free)");
		else isdef(&q.dcc_accessory_state.state_id, sizeof(char *), "state_id(read by free)");
	}
	sb_put(s, "}");
}
NOINST static void single_getters(sb_t *s, const char *kind, const char *id, const char *id2) {
	char path[256];
	if (!strcmp(kind, "point") || !strcmp(kind, "signal")) {
		snprintf(path, sizeof path, "%s:%s", kind, id ? id : "@null");
		t_bidib_unified_accessory_state_query q = !strcmp(kind, "point") ? bidib_get_point_state(id) : bidib_get_signal_state(id);
		sb_put(s, "\"%s\":", path); ser_unified(s, path, q);
		bidib_free_unified_accessory_state_query(q);
		if (id) {   /* position of the entity in the whole-track snapshot (documented: index into points_board / signals_board, -1 if not found) */
			long long ix = (long long)(!strcmp(kind, "point") ? bidib_get_point_state_index(id) : bidib_get_signal_state_index(id));
			sb_put(s, ",\"index:%s:%s\":%lld", kind, id, ix);
		}
	} else if (!strcmp(kind, "periph")) {
		snprintf(path, sizeof path, "periph:%s", id ? id : "@null"); cur_path = path;
		t_bidib_peripheral_state_query q = bidib_get_peripheral_state(id);
		sb_put(s, "\"%s\":{", path); FI(s, "known", q.available);
		if (TRUTH(q.available)) { COMMA(s); ser_periph_data(s, &q.data); } else isdef(&q.data.state_id, sizeof(char *), "state_id(read by free)");
		sb_put(s, "}");
		bidib_free_peripheral_state_query(q);
	} else if (!strcmp(kind, "segment")) {
		snprintf(path, sizeof path, "segment:%s", id ? id : "@null"); cur_path = path;
		t_bidib_segment_state_query q = bidib_get_segment_state(id);
		sb_put(s, "\"%s\":{", path); FI(s, "known", q.known);
		if (TRUTH(q.known)) { COMMA(s); ser_segment_data(s, &q.data); } else isdef(&q.data.dcc_addresses, sizeof(void *), "dcc_addresses(read by free)");
		sb_put(s, "}");
		bidib_free_segment_state_query(q);
		if (id) sb_put(s, ",\"index:segment:%s\":%lld", id, (long long)bidib_get_segment_state_index(id));
	} else if (!strcmp(kind, "reverser")) {
		snprintf(path, sizeof path, "reverser:%s", id ? id : "@null"); cur_path = path;
		t_bidib_reverser_state_query q = bidib_get_reverser_state(id);
		sb_put(s, "\"%s\":{", path); FI(s, "known", q.available);
		if (TRUTH(q.available)) { COMMA(s); ser_reverser_data(s, &q.data); } else isdef(&q.data.state_id, sizeof(char *), "state_id(read by free)");
		sb_put(s, "}");
		bidib_free_reverser_state_query(q);
	} else if (!strcmp(kind, "booster")) {
		snprintf(path, sizeof path, "booster:%s", id ? id : "@null"); cur_path = path;
		t_bidib_booster_state_query q = bidib_get_booster_state(id);
		sb_put(s, "\"%s\":{", path); FI(s, "known", q.known);
		if (TRUTH(q.known)) { COMMA(s); ser_booster_data(s, &q.data); }
		sb_put(s, "}");
	} else if (!strcmp(kind, "to")) {
		snprintf(path, sizeof path, "to:%s", id ? id : "@null"); cur_path = path;
		t_bidib_track_output_state_query q = bidib_get_track_output_state(id);
		sb_put(s, "\"%s\":{", path); FI(s, "known", q.known);
		if (TRUTH(q.known)) { COMMA(s); FI(s, "cs_state", q.cs_state); }
		sb_put(s, "}");
	} else if (!strcmp(kind, "train")) {
		snprintf(path, sizeof path, "train:%s", id ? id : "@null"); cur_path = path;
		t_bidib_train_state_query q = bidib_get_train_state(id);
		sb_put(s, "\"%s\":{", path); FI(s, "known", q.known);
		if (TRUTH(q.known)) { COMMA(s); ser_train_data(s, &q.data); } else isdef(&q.data.peripherals, sizeof(void *), "peripherals(read by free)");
		sb_put(s, "}");
		bidib_free_train_state_query(q);
		/* derived getters */
		snprintf(path, sizeof path, "trainpos:%s", id ? id : "@null"); cur_path = path;
		t_bidib_train_position_query p = bidib_get_train_position(id);
		sb_put(s, ",\"%s\":{", path);
		sb_put(s, "\"segments\":");
		if (isdef(&p.length, sizeof p.length, "length") && isdef(&p.segments, sizeof p.segments, "segments")) {
			sb_put(s, "["); for (size_t i = 0; i < p.length; i++) { if (i) COMMA(s); sb_str(s, p.segments[i]); } sb_put(s, "]");
		} else sb_put(s, "null");
		COMMA(s); FI(s, "left", p.orientation_is_left);
		sb_put(s, "}");
		bidib_free_train_position_query(p);
		snprintf(path, sizeof path, "speedstep:%s", id ? id : "@null"); cur_path = path;
		t_bidib_train_speed_step_query ss = bidib_get_train_speed_step(id);
		sb_put(s, ",\"%s\":{", path); FI(s, "known", ss.known_and_avail);
		if (TRUTH(ss.known_and_avail)) { COMMA(s); FI(s, "speed_step", ss.speed_step); COMMA(s); FI(s, "forwards", ss.is_forwards); }
		sb_put(s, "}");
		snprintf(path, sizeof path, "kmh:%s", id ? id : "@null"); cur_path = path;
		t_bidib_train_speed_kmh_query sk = bidib_get_train_speed_kmh(id);
		sb_put(s, ",\"%s\":{", path); FI(s, "known", sk.known_and_avail);
		if (TRUTH(sk.known_and_avail)) { COMMA(s); FI(s, "kmh", sk.speed_kmh); }
		sb_put(s, "}");
		snprintf(path, sizeof path, "on_track:%s", id ? id : "@null"); cur_path = path;
		bool ot = bidib_get_train_on_track(id);
		sb_put(s, ",\"%s\":%d", path, (int)ot);
		snprintf(path, sizeof path, "dccaddr:%s", id ? id : "@null"); cur_path = path;
		t_bidib_dcc_address_query da = bidib_get_train_dcc_addr(id);
		sb_put(s, ",\"%s\":{", path); FI(s, "known", da.known);
		if (TRUTH(da.known)) { COMMA(s); FI(s, "l", da.dcc_address.addrl); COMMA(s); FI(s, "h", da.dcc_address.addrh); COMMA(s); FI(s, "type", da.dcc_address.type); }
		sb_put(s, "}");
		snprintf(path, sizeof path, "tperiphs:%s", id ? id : "@null");
		COMMA(s);
		IDLIST(s, path, bidib_get_train_peripherals(id)); sb_put(s, "%s", "");
	} else if (!strcmp(kind, "tperiph")) {
		snprintf(path, sizeof path, "tperiph:%s/%s", id ? id : "@null", id2 ? id2 : "@null"); cur_path = path;
		t_bidib_train_peripheral_state_query q = bidib_get_train_peripheral_state(id, id2);
		sb_put(s, "\"%s\":{", path); FI(s, "known", q.available);
		if (TRUTH(q.available)) { COMMA(s); FI(s, "state", q.state); }
		sb_put(s, "}");
	} else if (!strcmp(kind, "enum")) {
		/* the enumeration getters over the board table: each call is one unit */
		IDLIST(s, "boards_connected", bidib_get_boards_connected()); COMMA(s);
		IDLIST(s, "connected_points", bidib_get_connected_points()); COMMA(s);
		IDLIST(s, "connected_segments", bidib_get_connected_segments()); COMMA(s);
		IDLIST(s, "connected_boosters", bidib_get_connected_boosters());
	} else if (!strcmp(kind, "board")) {
		snprintf(path, sizeof path, "board:%s", id ? id : "@null"); cur_path = path;
		sb_put(s, "\"%s\":{", path);
		bool c = bidib_get_board_connected(id); sb_put(s, "\"connected\":%d,", (int)c);
		t_bidib_unique_id_query u = bidib_get_uniqueid(id);
		FI(s, "uid_known", u.known);
		if (TRUTH(u.known)) {
			sb_put(s, ",\"uid\":\"");
			uint8_t *b = (uint8_t *)&u.unique_id; isdef(&u.unique_id, sizeof u.unique_id, "unique_id");
			for (size_t i = 0; i < 7; i++) sb_put(s, "%02x", b[i]);
			sb_put(s, "\"");
		}
		t_bidib_node_address_query a = bidib_get_nodeaddr(id);
		COMMA(s); FI(s, "addr_known", a.known_and_connected);
		if (TRUTH(a.known_and_connected)) { sb_put(s, ",\"addr\":{"); FI(s, "top", a.address.top); COMMA(s); FI(s, "sub", a.address.sub); COMMA(s); FI(s, "subsub", a.address.subsub); sb_put(s, "}"); }
		if (TRUTH(u.known)) {
			t_bidib_node_address_query a2 = bidib_get_nodeaddr_by_uniqueid(u.unique_id);
			COMMA(s); FI(s, "addr2_known", a2.known_and_connected);
			if (TRUTH(a2.known_and_connected)) { sb_put(s, ",\"addr2\":{"); FI(s, "top", a2.address.top); COMMA(s); FI(s, "sub", a2.address.sub); COMMA(s); FI(s, "subsub", a2.address.subsub); sb_put(s, "}"); }
			t_bidib_id_query iq = bidib_get_board_id(u.unique_id);
			COMMA(s); FI(s, "id_known", iq.known); if (TRUTH(iq.known)) { COMMA(s); FS(s, "id_by_uid", iq.id); }
			bidib_free_id_query(iq);
			if (TRUTH(a.known_and_connected)) {
				t_bidib_unique_id_query u2 = bidib_get_uniqueid_by_nodeaddr(a.address);
				COMMA(s); FI(s, "uid_by_addr_known", u2.known);
				if (TRUTH(u2.known)) { sb_put(s, ",\"uid_by_addr\":\""); uint8_t *b = (uint8_t *)&u2.unique_id; for (size_t i = 0; i < 7; i++) sb_put(s, "%02x", b[i]); sb_put(s, "\""); }
			}
		}
		t_bidib_board_features_query f = bidib_get_board_features(id);
		sb_put(s, ",\"features\":[");
		if (isdef(&f.length, sizeof f.length, "length") && isdef(&f.features, sizeof f.features, "features"))
			for (size_t i = 0; i < f.length; i++) sb_put(s, "%s[%u,%u]", i ? "," : "", f.features[i].number, f.features[i].value);
		sb_put(s, "],");
		bidib_free_board_features_query(f);
		IDLIST(s, "points", bidib_get_board_points(id)); COMMA(s);
		IDLIST(s, "signals", bidib_get_board_signals(id)); COMMA(s);
		IDLIST(s, "peripherals", bidib_get_board_peripherals(id)); COMMA(s);
		IDLIST(s, "segments", bidib_get_board_segments(id)); COMMA(s);
		IDLIST(s, "reversers", bidib_get_board_reversers(id));
		sb_put(s, "}");
	} else if (!strcmp(kind, "aspects")) {
		snprintf(path, sizeof path, "aspects:point:%s", id ? id : "@null"); IDLIST(s, path, bidib_get_point_aspects(id)); COMMA(s);
		snprintf(path, sizeof path, "aspects:signal:%s", id ? id : "@null"); IDLIST(s, path, bidib_get_signal_aspects(id)); COMMA(s);
		snprintf(path, sizeof path, "aspects:periph:%s", id ? id : "@null"); IDLIST(s, path, bidib_get_peripheral_aspects(id));
	}
}

NOINST static char *build_snapshot(int with_unknown) {
	sb_t S = {0}, *s = &S;
	t_bidib_track_state st = bidib_get_state();
	sb_put(s, "\"state\":{");
	cur_path = "state.points_board";
	sb_put(s, "\"points_board\":[");
	for (size_t i = 0; i < st.points_board_count; i++) { sb_put(s, "%s{", i ? "," : ""); FS(s, "id", st.points_board[i].id); COMMA(s); ser_board_acc_data(s, &st.points_board[i].data); sb_put(s, "}"); }
	cur_path = "state.points_dcc";
	sb_put(s, "],\"points_dcc\":[");
	for (size_t i = 0; i < st.points_dcc_count; i++) { sb_put(s, "%s{", i ? "," : ""); FS(s, "id", st.points_dcc[i].id); COMMA(s); ser_dcc_acc_data(s, &st.points_dcc[i].data); sb_put(s, "}"); }
	cur_path = "state.signals_board";
	sb_put(s, "],\"signals_board\":[");
	for (size_t i = 0; i < st.signals_board_count; i++) { sb_put(s, "%s{", i ? "," : ""); FS(s, "id", st.signals_board[i].id); COMMA(s); ser_board_acc_data(s, &st.signals_board[i].data); sb_put(s, "}"); }
	cur_path = "state.signals_dcc";
	sb_put(s, "],\"signals_dcc\":[");
	for (size_t i = 0; i < st.signals_dcc_count; i++) { sb_put(s, "%s{", i ? "," : ""); FS(s, "id", st.signals_dcc[i].id); COMMA(s); ser_dcc_acc_data(s, &st.signals_dcc[i].data); sb_put(s, "}"); }
	cur_path = "state.peripherals";
	sb_put(s, "],\"peripherals\":[");
	for (size_t i = 0; i < st.peripherals_count; i++) { sb_put(s, "%s{", i ? "," : ""); FS(s, "id", st.peripherals[i].id); COMMA(s); ser_periph_data(s, &st.peripherals[i].data); sb_put(s, "}"); }
	cur_path = "state.segments";
	sb_put(s, "],\"segments\":[");
	for (size_t i = 0; i < st.segments_count; i++) { sb_put(s, "%s{", i ? "," : ""); FS(s, "id", st.segments[i].id); COMMA(s); ser_segment_data(s, &st.segments[i].data); sb_put(s, "}"); }
	cur_path = "state.reversers";
	sb_put(s, "],\"reversers\":[");
	for (size_t i = 0; i < st.reversers_count; i++) { sb_put(s, "%s{", i ? "," : ""); FS(s, "id", st.reversers[i].id); COMMA(s); ser_reverser_data(s, &st.reversers[i].data); sb_put(s, "}"); }
	cur_path = "state.trains";
	sb_put(s, "],\"trains\":[");
	for (size_t i = 0; i < st.trains_count; i++) { sb_put(s, "%s{", i ? "," : ""); FS(s, "id", st.trains[i].id); COMMA(s); ser_train_data(s, &st.trains[i].data); sb_put(s, "}"); }
	cur_path = "state.boosters";
	sb_put(s, "],\"boosters\":[");
	for (size_t i = 0; i < st.booster_count; i++) { sb_put(s, "%s{", i ? "," : ""); FS(s, "id", st.booster[i].id); COMMA(s); ser_booster_data(s, &st.booster[i].data); sb_put(s, "}"); }
	cur_path = "state.track_outputs";
	sb_put(s, "],\"track_outputs\":[");
	for (size_t i = 0; i < st.track_outputs_count; i++) { sb_put(s, "%s{", i ? "," : ""); FS(s, "id", st.track_outputs[i].id); COMMA(s); FI(s, "cs_state", st.track_outputs[i].cs_state); sb_put(s, "}"); }
	sb_put(s, "]}");

	/* single-entity getters for every id of the snapshot */
	sb_put(s, ",\"single\":{\"_\":0");
#define EACH(arr, cnt, kind) for (size_t i = 0; i < st.cnt; i++) { COMMA(s); single_getters(s, kind, st.arr[i].id, NULL); }
	EACH(points_board, points_board_count, "point") EACH(points_dcc, points_dcc_count, "point")
	EACH(signals_board, signals_board_count, "signal") EACH(signals_dcc, signals_dcc_count, "signal")
	EACH(peripherals, peripherals_count, "periph") EACH(segments, segments_count, "segment")
	EACH(reversers, reversers_count, "reverser") EACH(booster, booster_count, "booster")
	EACH(track_outputs, track_outputs_count, "to") EACH(trains, trains_count, "train")
#undef EACH
	for (size_t i = 0; i < st.trains_count; i++)
		for (size_t j = 0; j < st.trains[i].data.peripheral_cnt; j++) { COMMA(s); single_getters(s, "tperiph", st.trains[i].id, st.trains[i].data.peripherals[j].id); }
	for (size_t i = 0; i < st.points_board_count; i++) { COMMA(s); single_getters(s, "aspects", st.points_board[i].id, NULL); }
	for (size_t i = 0; i < st.points_dcc_count; i++) { COMMA(s); single_getters(s, "aspects", st.points_dcc[i].id, NULL); }
	for (size_t i = 0; i < st.signals_board_count; i++) { COMMA(s); single_getters(s, "aspects", st.signals_board[i].id, NULL); }
	for (size_t i = 0; i < st.signals_dcc_count; i++) { COMMA(s); single_getters(s, "aspects", st.signals_dcc[i].id, NULL); }
	for (size_t i = 0; i < st.peripherals_count; i++) { COMMA(s); single_getters(s, "aspects", st.peripherals[i].id, NULL); }
	if (with_unknown) {
		static const char *kinds[] = {"point", "signal", "periph", "segment", "reverser", "booster", "to", "train", "board", "aspects"};
		for (size_t k = 0; k < sizeof kinds / sizeof *kinds; k++) {
			COMMA(s); single_getters(s, kinds[k], "no-such-id", NULL);
			COMMA(s); single_getters(s, kinds[k], NULL, NULL);
		}
		COMMA(s); single_getters(s, "tperiph", "no-such-id", "no-such-id");
		COMMA(s); single_getters(s, "tperiph", NULL, NULL);
		if (st.trains_count) { COMMA(s); single_getters(s, "tperiph", st.trains[0].id, "no-such-id"); COMMA(s); single_getters(s, "tperiph", st.trains[0].id, NULL); }
	}
	sb_put(s, "}");

	/* enumeration getters */
	sb_put(s, ",\"enum\":{");
	IDLIST(s, "boards", bidib_get_boards()); COMMA(s);
	IDLIST(s, "boards_connected", bidib_get_boards_connected()); COMMA(s);
	IDLIST(s, "connected_points", bidib_get_connected_points()); COMMA(s);
	IDLIST(s, "connected_signals", bidib_get_connected_signals()); COMMA(s);
	IDLIST(s, "connected_peripherals", bidib_get_connected_peripherals()); COMMA(s);
	IDLIST(s, "connected_segments", bidib_get_connected_segments()); COMMA(s);
	IDLIST(s, "connected_reversers", bidib_get_connected_reversers()); COMMA(s);
	IDLIST(s, "connected_boosters", bidib_get_connected_boosters()); COMMA(s);
	IDLIST(s, "boosters", bidib_get_boosters()); COMMA(s);
	IDLIST(s, "track_outputs", bidib_get_track_outputs()); COMMA(s);
	IDLIST(s, "connected_track_outputs", bidib_get_connected_track_outputs()); COMMA(s);
	IDLIST(s, "trains", bidib_get_trains()); COMMA(s);
	IDLIST(s, "trains_on_track", bidib_get_trains_on_track());
	{
		t_bidib_id_list_query b = bidib_get_boards();
		for (size_t i = 0; i < b.length; i++) { COMMA(s); single_getters(s, "board", b.ids[i], NULL); }
		bidib_free_id_list_query(b);
		t_bidib_id_list_query t = bidib_get_trains();
		for (size_t i = 0; i < t.length; i++) {
			t_bidib_dcc_address_query da = bidib_get_train_dcc_addr(t.ids[i]);
			if (TRUTH(da.known)) {
				t_bidib_id_query iq = bidib_get_train_id(da.dcc_address);
				char path[256]; snprintf(path, sizeof path, "train_by_addr:%s", t.ids[i]); cur_path = path;
				sb_put(s, ",\"%s\":", path); if (TRUTH(iq.known)) sb_str(s, iq.id); else sb_put(s, "null");
				bidib_free_id_query(iq);
			}
		}
		bidib_free_id_list_query(t);
	}
	sb_put(s, "}");
	bidib_free_track_state(st);
	return S.p;
}

NOINST void snap_full(const char *tag) {
	char *j = build_snapshot(1);
	size_t n = strlen(j);
	char *line = malloc(n + 256);
	snprintf(line, n + 256, "\"e\":\"snap\",\"tag\":\"%s\",\"vt\":%lld,\"undef\":%ld,", tag, (long long)vt_usec, undef_count);
	/* ev() has a bounded buffer: emit large snapshots in one write of our own */
	extern void ev_big(const char *head, const char *body);
	ev_big(line, j);
	free(line); free(j);
}

/* ---- C17 deep-copy probe: keep results, let the state change / the library stop, re-read, free once ---- */
static char *kept_json = NULL;
static t_bidib_track_state kept_state; static int kept_valid = 0;
static t_bidib_id_list_query kept_lists[4];
NOINST static char *ser_kept(void) {
	sb_t S = {0}, *s = &S;
	t_bidib_track_state *st = &kept_state;
	cur_path = "kept";
	sb_put(s, "{\"segments\":[");
	for (size_t i = 0; i < st->segments_count; i++) { sb_put(s, "%s{", i ? "," : ""); FS(s, "id", st->segments[i].id); COMMA(s); ser_segment_data(s, &st->segments[i].data); sb_put(s, "}"); }
	sb_put(s, "],\"trains\":[");
	for (size_t i = 0; i < st->trains_count; i++) { sb_put(s, "%s{", i ? "," : ""); FS(s, "id", st->trains[i].id); COMMA(s); ser_train_data(s, &st->trains[i].data); sb_put(s, "}"); }
	sb_put(s, "],\"points_board\":[");
	for (size_t i = 0; i < st->points_board_count; i++) { sb_put(s, "%s{", i ? "," : ""); FS(s, "id", st->points_board[i].id); COMMA(s); ser_board_acc_data(s, &st->points_board[i].data); sb_put(s, "}"); }
	sb_put(s, "],\"points_dcc\":[");
	for (size_t i = 0; i < st->points_dcc_count; i++) { sb_put(s, "%s{", i ? "," : ""); FS(s, "id", st->points_dcc[i].id); COMMA(s); ser_dcc_acc_data(s, &st->points_dcc[i].data); sb_put(s, "}"); }
	sb_put(s, "],\"signals_board\":[");
	for (size_t i = 0; i < st->signals_board_count; i++) { sb_put(s, "%s{", i ? "," : ""); FS(s, "id", st->signals_board[i].id); COMMA(s); ser_board_acc_data(s, &st->signals_board[i].data); sb_put(s, "}"); }
	sb_put(s, "],\"signals_dcc\":[");
	for (size_t i = 0; i < st->signals_dcc_count; i++) { sb_put(s, "%s{", i ? "," : ""); FS(s, "id", st->signals_dcc[i].id); COMMA(s); ser_dcc_acc_data(s, &st->signals_dcc[i].data); sb_put(s, "}"); }
	sb_put(s, "],\"peripherals\":[");
	for (size_t i = 0; i < st->peripherals_count; i++) { sb_put(s, "%s{", i ? "," : ""); FS(s, "id", st->peripherals[i].id); COMMA(s); ser_periph_data(s, &st->peripherals[i].data); sb_put(s, "}"); }
	sb_put(s, "],\"reversers\":[");
	for (size_t i = 0; i < st->reversers_count; i++) { sb_put(s, "%s{", i ? "," : ""); FS(s, "id", st->reversers[i].id); COMMA(s); ser_reverser_data(s, &st->reversers[i].data); sb_put(s, "}"); }
	sb_put(s, "],\"boosters\":[");
	for (size_t i = 0; i < st->booster_count; i++) { sb_put(s, "%s{", i ? "," : ""); FS(s, "id", st->booster[i].id); COMMA(s); FI(s, "power_state", st->booster[i].data.power_state); sb_put(s, "}"); }
	sb_put(s, "],\"track_outputs\":[");
	for (size_t i = 0; i < st->track_outputs_count; i++) { sb_put(s, "%s{", i ? "," : ""); FS(s, "id", st->track_outputs[i].id); COMMA(s); FI(s, "cs_state", st->track_outputs[i].cs_state); sb_put(s, "}"); }
	sb_put(s, "],\"lists\":[");
	for (int k = 0; k < 4; k++) { if (k) COMMA(s); ser_idlist(s, &kept_lists[k]); }
	sb_put(s, "]}");
	return S.p;
}
NOINST void snap_keep_and_check(const char *phase) {
	if (!strcmp(phase, "keep")) {
		if (kept_valid) return;
		kept_state = bidib_get_state();
		kept_lists[0] = bidib_get_boards(); kept_lists[1] = bidib_get_trains();
		kept_lists[2] = bidib_get_connected_segments(); kept_lists[3] = bidib_get_trains_on_track();
		kept_json = ser_kept(); kept_valid = 1;
		ev("\"e\":\"kept\",\"phase\":\"keep\",\"bytes\":%zu", strlen(kept_json));
	} else if (kept_valid) {
		char *now = ser_kept();
		int same = !strcmp(now, kept_json);
		ev("\"e\":\"kept\",\"phase\":\"%s\",\"same\":%d,\"bytes\":%zu", phase, same, strlen(now));
		if (!same) hx_violation("kept-result-changed", "a query result kept by the caller changed after later state changes / stop (phase %s)", phase);
		free(now);
		if (!strcmp(phase, "free")) {
			bidib_free_track_state(kept_state);
			for (int k = 0; k < 4; k++) bidib_free_id_list_query(kept_lists[k]);
			free(kept_json); kept_json = NULL; kept_valid = 0;
		}
	}
}

/* one getter call from a (worker) thread: result logged with call/return sequence numbers */
NOINST void single_getter_step(const char *kind, const char *id, const char *id2) {
	sb_t S = {0}, *s = &S;
	uint64_t n0 = ev_seq();
	if (!strcmp(kind, "state")) {
		char *j = build_snapshot(0);
		uint64_t n1 = ev_seq();
		char head[128]; snprintf(head, sizeof head, "\"e\":\"get\",\"kind\":\"state\",\"n0\":%llu,\"n1\":%llu,", (unsigned long long)n0, (unsigned long long)n1);
		extern void ev_big(const char *head, const char *body);
		ev_big(head, j); free(j);
		return;
	}
	sb_put(s, "{");
	single_getters(s, kind, id, id2);
	sb_put(s, "}");
	uint64_t n1 = ev_seq();
	char head[160]; snprintf(head, sizeof head, "\"e\":\"get\",\"kind\":\"%s\",\"n0\":%llu,\"n1\":%llu,\"r\":", kind, (unsigned long long)n0, (unsigned long long)n1);
	extern void ev_big(const char *head, const char *body);
	ev_big(head, S.p); free(S.p);
}
