/* Monitors: lock monitor, thread monitor, virtual time, log sink, contract monitor, event log.
 * Interposed at link time with -Wl,--wrap=...; the library sources are untouched. */
#define _GNU_SOURCE
#include <stdio.h>
#include <stdlib.h>
#include <string.h>
#include <unistd.h>
#include <fcntl.h>
#include <errno.h>
#include <sched.h>
#include <time.h>
#include <syslog.h>
#include <dlfcn.h>
#include "hx.h"

#define NOINST __attribute__((no_instrument_function))

/* ------------------------------------------------------------------ event log */
static int ev_fd = 2;
static pthread_mutex_t ev_mx = PTHREAD_MUTEX_INITIALIZER;
static uint64_t ev_n = 0;
atomic_int hx_violations = 0;
/* a library that never stops talking (livelock) must not fill the disk or the oracle's memory: the log is capped, the run ends as a hang */
size_t ev_max_bytes = 24u << 20;
static size_t ev_bytes = 0;
NOINST static void ev_account_locked(size_t k) {
	ev_bytes += k;
	if (ev_bytes > ev_max_bytes) {
		static const char msg[] = "{\"n\":0,\"t\":0,\"e\":\"hang\",\"cycle\":0,\"why\":\"event-log-overflow (endless activity)\"}\n";
		ssize_t w = write(ev_fd, msg, sizeof msg - 1); (void)w;
		_exit(98);
	}
}

NOINST void ev_open(const char *path) {
	ev_fd = open(path, O_WRONLY | O_CREAT | O_TRUNC | O_APPEND, 0644);
	if (ev_fd < 0) { perror("ev_open"); _exit(2); }
}
NOINST uint64_t ev_seq(void) {
	__real_pthread_mutex_lock(&ev_mx);
	uint64_t n = ++ev_n;
	__real_pthread_mutex_unlock(&ev_mx);
	return n;
}
NOINST void ev(const char *fmt, ...) {
	static char buf[1 << 17];
	va_list ap;
	__real_pthread_mutex_lock(&ev_mx);
	uint64_t n = ++ev_n;
	int k = snprintf(buf, sizeof buf, "{\"n\":%llu,\"t\":%d,", (unsigned long long)n, hx_tid);
	va_start(ap, fmt);
	int m = vsnprintf(buf + k, sizeof buf - k - 3, fmt, ap);
	va_end(ap);
	if (m < 0) m = 0;
	if ((size_t)m > sizeof buf - k - 3) m = sizeof buf - k - 3;
	k += m;
	buf[k++] = '}'; buf[k++] = '\n';
	ssize_t off = 0;
	while (off < k) { ssize_t w = write(ev_fd, buf + off, k - off); if (w <= 0) break; off += w; }
	ev_account_locked((size_t)k);
	__real_pthread_mutex_unlock(&ev_mx);
}
/* arbitrarily long body (snapshots) */
NOINST void ev_raw(const char *body) {
	size_t bl = strlen(body);
	char *line = malloc(bl + 96);
	__real_pthread_mutex_lock(&ev_mx);
	uint64_t n = ++ev_n;
	int k = snprintf(line, bl + 96, "{\"n\":%llu,\"t\":%d,%s}\n", (unsigned long long)n, hx_tid, body);
	ssize_t off = 0;
	while (off < k) { ssize_t w = write(ev_fd, line + off, k - off); if (w <= 0) break; off += w; }
	ev_account_locked((size_t)k);
	__real_pthread_mutex_unlock(&ev_mx);
	free(line);
}
NOINST void hexstr(char *dst, const uint8_t *p, size_t n) {
	static const char *H = "0123456789abcdef";
	for (size_t i = 0; i < n; i++) { dst[2 * i] = H[p[i] >> 4]; dst[2 * i + 1] = H[p[i] & 15]; }
	dst[2 * n] = 0;
}
NOINST void hx_violation(const char *cls, const char *fmt, ...) {
	char msg[2048];
	va_list ap; va_start(ap, fmt); vsnprintf(msg, sizeof msg, fmt, ap); va_end(ap);
	for (char *c = msg; *c; c++) if (*c == '"' || *c == '\\' || *c == '\n') *c = '\'';
	atomic_fetch_add(&hx_violations, 1);
	ev("\"e\":\"viol\",\"cls\":\"%s\",\"msg\":\"%s\"", cls, msg);
}

/* ------------------------------------------------------------------ threads */
__thread int hx_role = ROLE_APP;
__thread int hx_tid = 0;
static volatile int next_tid = 1;
NOINST int hx_new_tid(void) { return __sync_fetch_and_add(&next_tid, 1); }

#define MAXTHR 512
#define MAXHELD 16
#define MAXLOCK 64
typedef struct { void *lock; int li; int mode; /* 0 mutex, 1 rd, 2 wr */ } held_t;
typedef struct thr {
	int used, tid, role, alive, joined, is_lib;
	pthread_t handle;
	const char *routine;
	held_t held[MAXHELD]; int nheld;
	void *wait_lock; int wait_li, wait_mode;
} thr_t;
static thr_t thrs[MAXTHR];
static int nthr = 0;
static pthread_mutex_t mon_mx = PTHREAD_MUTEX_INITIALIZER;
static __thread thr_t *me = NULL;

NOINST static thr_t *thr_alloc(void) {
	if (nthr >= MAXTHR) { fprintf(stderr, "harness: too many threads\n"); _exit(2); }
	thr_t *t = &thrs[nthr++];
	memset(t, 0, sizeof *t); t->used = 1; t->wait_li = -1;
	return t;
}
NOINST static thr_t *self(void) {
	if (!me) {
		__real_pthread_mutex_lock(&mon_mx);
		me = thr_alloc(); me->tid = hx_tid; me->role = hx_role; me->alive = 1; me->routine = "main/app";
		me->handle = pthread_self();
		__real_pthread_mutex_unlock(&mon_mx);
	}
	return me;
}

/* ------------------------------------------------------------------ lock registry */
typedef struct { void *p; const char *name; int is_rw; } lockrec_t;
static lockrec_t locks[MAXLOCK];
static int nlocks = 0;
static long edge_cnt[MAXLOCK][MAXLOCK];
static long edge_cnt_run[MAXLOCK][MAXLOCK];   /* observed while the library was running (armed) or on a library thread */
static char edge_wit[MAXLOCK][MAXLOCK][48];
static long rec_rd_cnt = 0;
atomic_long mon_lock_ops = 0;
__thread const char *hx_curcall = "-";

#define WEAKLOCK(n, T) extern T n __attribute__((weak));
WEAKLOCK(bidib_trains_rwlock, pthread_rwlock_t) WEAKLOCK(bidib_boards_rwlock, pthread_rwlock_t)
WEAKLOCK(trackstate_accessories_mutex, pthread_mutex_t) WEAKLOCK(trackstate_peripherals_mutex, pthread_mutex_t)
WEAKLOCK(trackstate_segments_mutex, pthread_mutex_t) WEAKLOCK(trackstate_reversers_mutex, pthread_mutex_t)
WEAKLOCK(trackstate_trains_mutex, pthread_mutex_t) WEAKLOCK(trackstate_boosters_mutex, pthread_mutex_t)
WEAKLOCK(trackstate_track_outputs_mutex, pthread_mutex_t) WEAKLOCK(bidib_node_state_table_mutex, pthread_mutex_t)
WEAKLOCK(bidib_send_buffer_mutex, pthread_mutex_t) WEAKLOCK(bidib_uplink_queue_mutex, pthread_mutex_t)
WEAKLOCK(bidib_uplink_error_queue_mutex, pthread_mutex_t) WEAKLOCK(bidib_uplink_intern_queue_mutex, pthread_mutex_t)
WEAKLOCK(bidib_action_id_mutex, pthread_mutex_t)

NOINST static void lock_name_add(void *p, const char *name, int is_rw) {
	if (!p || nlocks >= MAXLOCK) return;
	locks[nlocks].p = p; locks[nlocks].name = name; locks[nlocks].is_rw = is_rw; nlocks++;
}
NOINST void mon_lock_names_init(void) {
#define N(n, rw) lock_name_add((void *)&n, #n, rw)
	N(bidib_trains_rwlock, 1); N(bidib_boards_rwlock, 1);
	N(trackstate_accessories_mutex, 0); N(trackstate_peripherals_mutex, 0); N(trackstate_segments_mutex, 0);
	N(trackstate_reversers_mutex, 0); N(trackstate_trains_mutex, 0); N(trackstate_boosters_mutex, 0);
	N(trackstate_track_outputs_mutex, 0); N(bidib_node_state_table_mutex, 0); N(bidib_send_buffer_mutex, 0);
	N(bidib_uplink_queue_mutex, 0); N(bidib_uplink_error_queue_mutex, 0); N(bidib_uplink_intern_queue_mutex, 0);
	N(bidib_action_id_mutex, 0);
#undef N
}
/* caller holds mon_mx */
NOINST static int lock_index(void *p, int is_rw) {
	for (int i = 0; i < nlocks; i++) if (locks[i].p == p) return i;
	if (nlocks >= MAXLOCK) return MAXLOCK - 1;
	char *nm = malloc(24); snprintf(nm, 24, "lock#%d", nlocks);
	locks[nlocks].p = p; locks[nlocks].name = nm; locks[nlocks].is_rw = is_rw;
	return nlocks++;
}
NOINST int mon_lock_index_by_name(const char *name) {
	for (int i = 0; i < nlocks; i++) if (!strcmp(locks[i].name, name)) return i;
	return -1;
}

/* ------------------------------------------------------------------ perturbation */
atomic_int mon_perturb = 0;
static uint64_t mon_seed = 1;
static __thread uint64_t prng = 0;
NOINST static uint32_t rnd(void) {
	if (!prng) prng = mon_seed * 0x9E3779B97F4A7C15ull + (uint64_t)(hx_tid + 1) * 0xD1B54A32D192ED03ull + 1;
	prng ^= prng << 13; prng ^= prng >> 7; prng ^= prng << 17;
	return (uint32_t)(prng >> 16);
}
NOINST static void perturb(void) {
	int p = mon_perturb;
	if (p <= 0 || hx_role == ROLE_HARNESS) return;
	uint32_t r = rnd();
	if ((int)(r % 1000) >= p) return;
	if (r & 0x10000) sched_yield();
	else __real_usleep((r >> 17) % 150);
}

/* ------------------------------------------------------------------ directed preemption (pause points)
 * "pause <target> <k>": the k-th scheduling point (lock acquire attempt, lock release, optionally library function entry) of the target
 * thread blocks until the scenario says "release" or until some other thread waits for a lock the paused thread holds (that thread is
 * then serialised behind it, which is all a scheduler could do as well). Lets a scenario run a whole call of thread B *inside* a chosen
 * point of thread A's call (or of the receiver's processing of one packet) - a systematic sweep over k replaces luck. */
static atomic_int sp_kind = 0;      /* 0 off, 1 role, 2 worker index, 3 main thread */
static atomic_int sp_val = 0, sp_k = 0, sp_count = 0, sp_fn = 0;
atomic_int sp_paused = 0;           /* 0 not (yet), 1 paused now, 2 resumed */
atomic_int sp_release = 0;
static atomic_int sp_sleepers = 0;      /* application threads inside a library usleep ("everything in flight settles, then time passes"): a parked receiver goes on */
static atomic_int sp_joining_tid = -1;   /* thread id some pthread_join is waiting for: a paused thread that is being joined resumes (the joiner can do nothing else) */
__thread int hx_widx = -1;
static int blocked_by_me(void);
NOINST void mon_pause_arm(int kind, int val, int k, int fn) {
	sp_kind = 0; sp_val = val; sp_k = k; sp_count = 0; sp_fn = fn; sp_paused = 0; sp_release = 0; sp_kind = kind;
}
NOINST int mon_pause_disarm(void) { sp_kind = 0; sp_release = 1; return sp_count; }
NOINST static void sched_point(const char *kind, const char *name) {
	int tk = sp_kind;
	if (!tk) return;
	if (tk == 1 ? hx_role != sp_val : tk == 2 ? hx_widx != sp_val : (hx_tid != 0)) return;
	int c = atomic_fetch_add(&sp_count, 1) + 1;
	if (c != sp_k) return;
	char d[512]; mon_held_describe(d, sizeof d);
	ev("\"e\":\"paused\",\"k\":%d,\"kind\":\"%s\",\"at\":\"%s\",\"held\":\"%s\",\"call\":\"%s\"", c, kind, name, d, hx_curcall);
	sp_paused = 1;
	const char *why = "timeout"; int waited = 0;
	while (waited < 4000000) {
		if (sp_release) { why = "released"; break; }
		if (blocked_by_me()) { why = "waiter"; break; }
		if (sp_joining_tid == hx_tid) { why = "joiner"; break; }
		if (hx_role == ROLE_RECEIVER && sp_sleepers > 0 && waited > 20000) { why = "sleeper"; break; }
		__real_usleep(40); waited += 40;
	}
	sp_paused = 2;
	ev("\"e\":\"resumed\",\"k\":%d,\"why\":\"%s\"", c, why);
}

/* ------------------------------------------------------------------ lock monitor */
atomic_int mon_armed = 0;
atomic_int mon_contracts_on = 1;

NOINST static void die_deadlock(const char *what, int li) {
	hx_violation("self-deadlock", "%s on %s in call %s (thread %d already holds it)", what, locks[li].name, hx_curcall, hx_tid);
	mon_dump_all("self-deadlock");
	_exit(96);
}

NOINST static void before_acquire(void *lk, int mode) {
	thr_t *t = self();
	perturb();
	if (sp_kind) { __real_pthread_mutex_lock(&mon_mx); int l0 = lock_index(lk, mode != 0); __real_pthread_mutex_unlock(&mon_mx); sched_point(mode == 0 ? "lock" : mode == 1 ? "rdlock" : "wrlock", locks[l0].name); }
	__real_pthread_mutex_lock(&mon_mx);
	int li = lock_index(lk, mode != 0);
	int conflict = 0;
	for (int i = 0; i < t->nheld; i++) {
		if (t->held[i].lock == lk) {
			if (mode == 0 || mode == 2 || t->held[i].mode == 2) conflict = 1;
			else rec_rd_cnt++;
		}
	}
	t->wait_lock = lk; t->wait_li = li; t->wait_mode = mode;
	__real_pthread_mutex_unlock(&mon_mx);
	if (conflict) die_deadlock(mode == 0 ? "mutex lock" : mode == 1 ? "rdlock" : "wrlock", li);
}
NOINST static void after_acquire(void *lk, int mode, int ok) {
	thr_t *t = self();
	__real_pthread_mutex_lock(&mon_mx);
	int li = t->wait_li >= 0 ? t->wait_li : lock_index(lk, mode != 0);
	t->wait_lock = NULL; t->wait_li = -1;
	if (ok) {
		for (int i = 0; i < t->nheld; i++) {
			int a = t->held[i].li;
			if (a != li) {
				if (edge_cnt[a][li]++ == 0) { strncpy(edge_wit[a][li], hx_curcall, 47); }
				if (mon_armed || hx_role == ROLE_RECEIVER || hx_role == ROLE_AUTOFLUSH || hx_role == ROLE_HEARTBEAT || hx_role == ROLE_WORKER) {
					if (edge_cnt_run[a][li]++ == 0) strncpy(edge_wit[a][li], hx_curcall, 47);
				}
			}
		}
		if (t->nheld < MAXHELD) { t->held[t->nheld].lock = lk; t->held[t->nheld].li = li; t->held[t->nheld].mode = mode; t->nheld++; }
		mon_lock_ops++;
	}
	__real_pthread_mutex_unlock(&mon_mx);
}
NOINST static void on_release(void *lk, int is_rw) {
	thr_t *t = self();
	__real_pthread_mutex_lock(&mon_mx);
	int found = -1;
	for (int i = t->nheld - 1; i >= 0; i--) if (t->held[i].lock == lk) { found = i; break; }
	if (found >= 0) {
		for (int i = found; i < t->nheld - 1; i++) t->held[i] = t->held[i + 1];
		t->nheld--;
	}
	int li = lock_index(lk, is_rw);
	__real_pthread_mutex_unlock(&mon_mx);
	if (found < 0) hx_violation("unlock-not-held", "thread %d unlocks %s which it does not hold (call %s)", hx_tid, locks[li].name, hx_curcall);
}

NOINST int __wrap_pthread_mutex_lock(pthread_mutex_t *m) {
	if (hx_role == ROLE_HARNESS) return __real_pthread_mutex_lock(m);
	before_acquire(m, 0);
	int r = __real_pthread_mutex_lock(m);
	after_acquire(m, 0, r == 0);
	return r;
}
NOINST int __wrap_pthread_mutex_trylock(pthread_mutex_t *m) {
	if (hx_role == ROLE_HARNESS) return __real_pthread_mutex_trylock(m);
	int r = __real_pthread_mutex_trylock(m);
	if (r == 0) { self()->wait_li = -1; after_acquire(m, 0, 1); }
	return r;
}
NOINST int __wrap_pthread_mutex_unlock(pthread_mutex_t *m) {
	if (hx_role == ROLE_HARNESS) return __real_pthread_mutex_unlock(m);
	on_release(m, 0);
	int r = __real_pthread_mutex_unlock(m);
	perturb();
	if (sp_kind) sched_point("unlock", "mutex");
	return r;
}
NOINST int __wrap_pthread_rwlock_rdlock(pthread_rwlock_t *l) {
	before_acquire(l, 1);
	int r = __real_pthread_rwlock_rdlock(l);
	after_acquire(l, 1, r == 0);
	return r;
}
NOINST int __wrap_pthread_rwlock_wrlock(pthread_rwlock_t *l) {
	before_acquire(l, 2);
	int r = __real_pthread_rwlock_wrlock(l);
	after_acquire(l, 2, r == 0);
	return r;
}
NOINST int __wrap_pthread_rwlock_unlock(pthread_rwlock_t *l) {
	on_release(l, 1);
	int r = __real_pthread_rwlock_unlock(l);
	perturb();
	if (sp_kind) sched_point("unlock", "rwlock");
	return r;
}
NOINST int __wrap_pthread_mutex_init(pthread_mutex_t *m, const pthread_mutexattr_t *a) {
	/* re-initialising a lock somebody holds is a lifecycle error */
	__real_pthread_mutex_lock(&mon_mx);
	int bad = 0;
	for (int i = 0; i < nthr; i++) for (int j = 0; j < thrs[i].nheld; j++) if (thrs[i].held[j].lock == (void *)m) bad = 1;
	__real_pthread_mutex_unlock(&mon_mx);
	if (bad) hx_violation("init-held-lock", "pthread_mutex_init on a mutex that is currently held");
	return __real_pthread_mutex_init(m, a);
}
NOINST int __wrap_pthread_rwlock_init(pthread_rwlock_t *l, const pthread_rwlockattr_t *a) {
	__real_pthread_mutex_lock(&mon_mx);
	int bad = 0, li = -1;
	for (int i = 0; i < nthr; i++) for (int j = 0; j < thrs[i].nheld; j++) if (thrs[i].held[j].lock == (void *)l) { bad = 1; li = thrs[i].held[j].li; }
	if (bad) {
		/* the stale hold can never be released through this object any more: drop it from the books */
		for (int i = 0; i < nthr; i++) {
			int k = 0;
			for (int j = 0; j < thrs[i].nheld; j++) if (thrs[i].held[j].lock != (void *)l) thrs[i].held[k++] = thrs[i].held[j];
			thrs[i].nheld = k;
		}
	}
	__real_pthread_mutex_unlock(&mon_mx);
	if (bad) hx_violation("init-held-lock", "pthread_rwlock_init on %s while it is held (leaked by an earlier call)", li >= 0 ? locks[li].name : "?");
	return __real_pthread_rwlock_init(l, a);
}

NOINST int mon_held_count(void) { return self()->nheld; }
NOINST void mon_held_describe(char *dst, size_t n) {
	thr_t *t = self(); size_t k = 0; dst[0] = 0;
	for (int i = 0; i < t->nheld && k + 64 < n; i++)
		k += snprintf(dst + k, n - k, "%s%s(%s)", i ? "," : "", locks[t->held[i].li].name, t->held[i].mode == 0 ? "m" : t->held[i].mode == 1 ? "rd" : "wr");
}
NOINST int mon_holds(const char *name, int need_mode /*0 any,2 write*/) {
	thr_t *t = self();
	for (int i = 0; i < t->nheld; i++)
		if (!strcmp(locks[t->held[i].li].name, name) && (need_mode != 2 || t->held[i].mode == 2 || t->held[i].mode == 0)) return 1;
	return 0;
}
NOINST void mon_dump_all(const char *why) {
	char buf[8192]; size_t k = 0;
	__real_pthread_mutex_lock(&mon_mx);
	k += snprintf(buf + k, sizeof buf - k, "[");
	int first = 1;
	for (int i = 0; i < nthr && k + 512 < sizeof buf; i++) {
		thr_t *t = &thrs[i];
		if (!t->alive && !t->nheld) continue;
		k += snprintf(buf + k, sizeof buf - k, "%s{\"tid\":%d,\"role\":%d,\"routine\":\"%s\",\"alive\":%d,\"held\":[", first ? "" : ",", t->tid, t->role, t->routine ? t->routine : "?", t->alive);
		first = 0;
		for (int j = 0; j < t->nheld; j++) k += snprintf(buf + k, sizeof buf - k, "%s\"%s/%d\"", j ? "," : "", locks[t->held[j].li].name, t->held[j].mode);
		k += snprintf(buf + k, sizeof buf - k, "],\"wait\":\"%s\"}", t->wait_li >= 0 ? locks[t->wait_li].name : "");
	}
	snprintf(buf + k, sizeof buf - k, "]");
	__real_pthread_mutex_unlock(&mon_mx);
	ev("\"e\":\"lockdump\",\"why\":\"%s\",\"threads\":%s", why, buf);
}
/* wait-for cycle: thread A waits for lock L held by B, B waits for ... A */
NOINST int mon_find_cycle(char *dst, size_t n) {
	int found = 0;
	__real_pthread_mutex_lock(&mon_mx);
	for (int s = 0; s < nthr && !found; s++) {
		if (thrs[s].wait_li < 0) continue;
		int cur = s, steps = 0; size_t k = 0; dst[0] = 0;
		while (steps++ < nthr + 1) {
			thr_t *t = &thrs[cur];
			if (t->wait_li < 0) break;
			int holder = -1;
			for (int i = 0; i < nthr && holder < 0; i++) {
				for (int j = 0; j < thrs[i].nheld; j++) if (thrs[i].held[j].lock == t->wait_lock && (i != cur || 1)) { holder = i; break; }
			}
			if (holder < 0) break;
			k += snprintf(dst + k, n > k ? n - k : 0, "t%d(%s)->%s->", t->tid, t->routine ? t->routine : "?", locks[t->wait_li].name);
			if (holder == s) { snprintf(dst + k, n > k ? n - k : 0, "t%d", thrs[s].tid); found = 1; break; }
			cur = holder;
		}
	}
	__real_pthread_mutex_unlock(&mon_mx);
	return found;
}
NOINST void mon_report_edges(void) {
	char *buf = malloc(1 << 16); size_t k = 0, cap = 1 << 16;
	__real_pthread_mutex_lock(&mon_mx);
	k += snprintf(buf + k, cap - k, "[");
	int first = 1;
	for (int a = 0; a < nlocks; a++) for (int b = 0; b < nlocks; b++) if (edge_cnt[a][b] && k + 256 < cap) {
		k += snprintf(buf + k, cap - k, "%s[\"%s\",\"%s\",%ld,\"%s\",%ld]", first ? "" : ",", locks[a].name, locks[b].name, edge_cnt[a][b], edge_wit[a][b], edge_cnt_run[a][b]);
		first = 0;
	}
	snprintf(buf + k, cap - k, "]");
	__real_pthread_mutex_unlock(&mon_mx);
	extern atomic_long mon_container_accesses, mon_containers_shared;
	ev("\"e\":\"edges\",\"edges\":%s,\"rec_rd\":%ld,\"lock_ops\":%ld,\"contract_checks\":%ld,\"contract_viol\":%ld", buf, rec_rd_cnt, (long)mon_lock_ops, (long)mon_contract_checks, (long)mon_contract_viol);
	ev("\"e\":\"containers\",\"accesses\":%ld,\"shared\":%ld", (long)mon_container_accesses, (long)mon_containers_shared);
	free(buf);
}
NOINST int mon_receiver_blocked_by_me(void) {
	thr_t *t = self(); int r = 0;
	__real_pthread_mutex_lock(&mon_mx);
	for (int i = 0; i < nthr && !r; i++) {
		if (!thrs[i].alive || thrs[i].role != ROLE_RECEIVER || thrs[i].wait_li < 0) continue;
		for (int j = 0; j < t->nheld; j++) if (t->held[j].lock == thrs[i].wait_lock) r = 1;
	}
	__real_pthread_mutex_unlock(&mon_mx);
	return r;
}

/* the receiver waits for a lock that another thread holds in a conflicting mode */
NOINST int mon_receiver_blocked(void) {
	int r = 0;
	__real_pthread_mutex_lock(&mon_mx);
	for (int i = 0; i < nthr && !r; i++) {
		if (!thrs[i].alive || thrs[i].role != ROLE_RECEIVER || thrs[i].wait_li < 0) continue;
		for (int a = 0; a < nthr && !r; a++) for (int j = 0; j < thrs[a].nheld; j++)
			if (a != i && thrs[a].held[j].lock == thrs[i].wait_lock && (thrs[a].held[j].mode != 1 || thrs[i].wait_mode != 1)) { r = 1; break; }
	}
	__real_pthread_mutex_unlock(&mon_mx);
	return r;
}
NOINST static int blocked_by_me(void) {
	thr_t *t = self(); int r = 0;
	__real_pthread_mutex_lock(&mon_mx);
	for (int i = 0; i < nthr && !r; i++) {
		if (&thrs[i] == t || !thrs[i].alive || thrs[i].wait_li < 0) continue;
		for (int j = 0; j < t->nheld; j++)
			if (t->held[j].lock == thrs[i].wait_lock && (t->held[j].mode != 1 || thrs[i].wait_mode != 1)) r = 1;
	}
	__real_pthread_mutex_unlock(&mon_mx);
	return r;
}

/* ------------------------------------------------------------------ thread monitor */
extern void *bidib_auto_receive(void *) __attribute__((weak));
extern void *bidib_auto_flush(void *) __attribute__((weak));
extern void *bidib_heartbeat_log(void *) __attribute__((weak));

typedef struct { void *(*fn)(void *); void *arg; thr_t *rec; int role; int tid; } tramp_t;
NOINST static void *trampoline(void *p) {
	tramp_t tr = *(tramp_t *)p; free(p);
	hx_role = tr.role; hx_tid = tr.tid; me = tr.rec;
	void *r = tr.fn(tr.arg);
	if (me->nheld) {
		char d[512]; mon_held_describe(d, sizeof d);
		hx_violation("thread-exit-holding", "thread %d (%s) exits holding %s", hx_tid, me->routine, d);
	}
	__real_pthread_mutex_lock(&mon_mx);
	me->alive = 0;
	__real_pthread_mutex_unlock(&mon_mx);
	return r;
}
NOINST int hx_thread_create(pthread_t *th, void *(*fn)(void *), void *arg, int role, const char *routine, int is_lib) {
	tramp_t *tr = malloc(sizeof *tr);
	__real_pthread_mutex_lock(&mon_mx);
	thr_t *rec = thr_alloc();
	rec->tid = hx_new_tid(); rec->role = role; rec->alive = 1; rec->routine = routine; rec->is_lib = is_lib;
	__real_pthread_mutex_unlock(&mon_mx);
	tr->fn = fn; tr->arg = arg; tr->rec = rec; tr->role = role; tr->tid = rec->tid;
	if (role == ROLE_RECEIVER) bus_set_receiver_alive(1);
	int r = __real_pthread_create(th, NULL, trampoline, tr);
	__real_pthread_mutex_lock(&mon_mx);
	if (r == 0) rec->handle = *th; else { rec->alive = 0; rec->joined = 1; }
	__real_pthread_mutex_unlock(&mon_mx);
	if (is_lib) ev("\"e\":\"thr_create\",\"new\":%d,\"routine\":\"%s\",\"rc\":%d", rec->tid, routine, r);
	return r;
}
NOINST int __wrap_pthread_create(pthread_t *th, const pthread_attr_t *attr, void *(*fn)(void *), void *arg) {
	(void)attr;
	int role = ROLE_APP; const char *nm = "lib-other";
	if (fn == bidib_auto_receive && fn) { role = ROLE_RECEIVER; nm = "bidib_auto_receive"; }
	else if (fn == bidib_auto_flush && fn) { role = ROLE_AUTOFLUSH; nm = "bidib_auto_flush"; }
	else if (fn == bidib_heartbeat_log && fn) { role = ROLE_HEARTBEAT; nm = "bidib_heartbeat_log"; }
	return hx_thread_create(th, fn, arg, role, nm, 1);
}
NOINST int __wrap_pthread_join(pthread_t h, void **ret) {
	thr_t *rec = NULL;
	__real_pthread_mutex_lock(&mon_mx);
	for (int i = nthr - 1; i >= 0; i--) if (thrs[i].is_lib && !thrs[i].joined && pthread_equal(thrs[i].handle, h)) { rec = &thrs[i]; break; }
	if (rec) rec->joined = 1;   /* claimed by this join */
	__real_pthread_mutex_unlock(&mon_mx);
	if (!rec) {
		/* a join on a handle no live/unjoined library thread owns: undefined behaviour in pthreads. Report, do not execute. */
		const char *which = "?";
		__real_pthread_mutex_lock(&mon_mx);
		for (int i = nthr - 1; i >= 0; i--) if (thrs[i].is_lib && pthread_equal(thrs[i].handle, h)) { which = thrs[i].routine; break; }
		__real_pthread_mutex_unlock(&mon_mx);
		hx_violation("join-not-live", "pthread_join on a handle that is not a live unjoined library thread (last owner: %s)", which);
		return ESRCH;
	}
	sp_joining_tid = rec->tid;
	int r = __real_pthread_join(h, ret);
	sp_joining_tid = -1;
	if (rec->role == ROLE_RECEIVER) bus_set_receiver_alive(0);
	ev("\"e\":\"thr_join\",\"joined\":%d,\"routine\":\"%s\",\"rc\":%d", rec->tid, rec->routine, r);
	return r;
}
NOINST int mon_live_lib_threads(void) {
	int n = 0;
	__real_pthread_mutex_lock(&mon_mx);
	for (int i = 0; i < nthr; i++) if (thrs[i].is_lib && (!thrs[i].joined)) n++;
	__real_pthread_mutex_unlock(&mon_mx);
	return n;
}
NOINST void mon_thread_summary(void) {
	int created = 0, joined = 0, alive = 0;
	__real_pthread_mutex_lock(&mon_mx);
	for (int i = 0; i < nthr; i++) if (thrs[i].is_lib) { created++; joined += thrs[i].joined; alive += thrs[i].alive; }
	__real_pthread_mutex_unlock(&mon_mx);
	ev("\"e\":\"thr_summary\",\"created\":%d,\"joined\":%d,\"alive\":%d", created, joined, alive);
}

/* ------------------------------------------------------------------ virtual time */
_Atomic int64_t vt_usec = 0;
int vt_call_limit_s = 600;
void mon_dump_log(int last);
static const time_t vt_base = 1700000000;
NOINST void vt_advance_us(int64_t us) { extern void bus_vt_tick(void); atomic_fetch_add(&vt_usec, us); bus_vt_tick(); }
NOINST time_t __wrap_time(time_t *t) {
	time_t v = vt_base + (time_t)(vt_usec / 1000000);
	if (t) *t = v;
	return v;
}
/* the library's monotonic clock is the virtual one as well: deadlines it computes from clock_gettime pass when its own sleeping has let
 * that much virtual time pass (a wall-clock deadline would never expire here - a sleep costs microseconds - and would hide behaviour that
 * depends on it). Harness code calls __real_clock_gettime. */
static int64_t mono_base_us;     /* written once before main (no thread exists yet) */
__attribute__((constructor)) NOINST static void mono_base_init(void) {
	struct timespec b; __real_clock_gettime(CLOCK_MONOTONIC, &b);
	mono_base_us = (int64_t)b.tv_sec * 1000000 + b.tv_nsec / 1000;
}
NOINST int __wrap_clock_gettime(int clk, struct timespec *ts) {
	if (hx_role == ROLE_HARNESS || (clk != CLOCK_MONOTONIC && clk != CLOCK_MONOTONIC_RAW)) return __real_clock_gettime(clk, ts);
	int64_t us = mono_base_us + vt_usec;
	ts->tv_sec = (time_t)(us / 1000000); ts->tv_nsec = (long)(us % 1000000) * 1000;
	return 0;
}
NOINST int __wrap_usleep(unsigned int us) {
	switch (hx_role) {
	case ROLE_RECEIVER: bus_receiver_idle_wait(); return 0;
	case ROLE_AUTOFLUSH: {
		/* the requested period is part of the session's behaviour (it comes from the flush_interval argument): recorded whenever it changes */
		static __thread unsigned last_us = 0xFFFFFFFFu;
		if (us != last_us) { last_us = us; ev("\"e\":\"afsleep\",\"us\":%u", us); }
		__real_usleep(us > 1000 ? 1000 : us); return 0; }
	case ROLE_HEARTBEAT: __real_usleep(us > 1000 ? 1000 : us); return 0;
	case ROLE_HARNESS: return __real_usleep(us);
	default: {
		/* application thread inside start/stop/reset/enumeration: "let everything in flight settle, then time passes" */
		atomic_fetch_add(&sp_sleepers, 1);
		bus_wait_quiescent(30000);      /* logical condition; the bound only matters on a machine so loaded that the receiver does not run */
		atomic_fetch_sub(&sp_sleepers, 1);
		vt_advance_us(us);
		/* logical bound instead of a wall clock: a single call that sleeps through more than vt_call_limit virtual seconds (a start
		 * takes about 3-10, a stop about 1) is polling for something that will never come - the call does not terminate */
		static __thread const char *cur = NULL; static __thread int64_t slept = 0;
		if (cur != hx_curcall) { cur = hx_curcall; slept = 0; }
		slept += us;
		if (vt_call_limit_s > 0 && slept > (int64_t)vt_call_limit_s * 1000000) {
			mon_dump_all("virtual-time-limit");
			mon_dump_log(30);
			ev("\"e\":\"hang\",\"cycle\":0,\"why\":\"call %s slept through %d virtual seconds without returning\"", hx_curcall, vt_call_limit_s);
			_exit(98);
		}
		return 0; }
	}
}

/* ------------------------------------------------------------------ simulated serial device
 * bidib_start_serial() opens a tty and polls it with read(2). The device name "/dev/simbus" is served by the simulated bus instead: the library's
 * open/read/write/close are interposed at link time (only references from the library and harness objects are affected), everything else passes through. */
#include <sys/types.h>
int __real_open(const char *path, int flags, ...);
ssize_t __real_read(int fd, void *buf, size_t n);
ssize_t __real_write(int fd, const void *buf, size_t n);
int __real_close(int fd);
static volatile int sim_fd = -1;
NOINST int __wrap_open(const char *path, int flags, ...) {
	mode_t mode = 0;
	if (flags & O_CREAT) { va_list ap; va_start(ap, flags); mode = (mode_t)va_arg(ap, int); va_end(ap); }
	if (path && !strcmp(path, "/dev/simbus")) {
		int fd = __real_open("/dev/null", O_RDWR);
		sim_fd = fd;
		ev("\"e\":\"serial_open\",\"fd\":%d", fd);
		return fd;
	}
	return __real_open(path, flags, mode);
}
NOINST ssize_t __wrap_read(int fd, void *buf, size_t n) {
	if (fd >= 0 && fd == sim_fd && n >= 1) {
		int ok = 0; uint8_t b = bus_read_cb(&ok);
		if (ok) { *(uint8_t *)buf = b; return 1; }
		errno = EAGAIN; return -1;
	}
	return __real_read(fd, buf, n);
}
NOINST ssize_t __wrap_write(int fd, const void *buf, size_t n) {
	if (fd >= 0 && fd == sim_fd) { bus_write_cb((uint8_t *)buf, (int32_t)n); return (ssize_t)n; }
	return __real_write(fd, buf, n);
}
NOINST int __wrap_close(int fd) {
	if (fd >= 0 && fd == sim_fd) { sim_fd = -1; ev("\"e\":\"serial_close\",\"fd\":%d", fd); }
	return __real_close(fd);
}

/* ------------------------------------------------------------------ log sink */
#define LOGRING 128
static char logring[LOGRING][256];
static int logpos = 0;
static pthread_mutex_t log_mx = PTHREAD_MUTEX_INITIALIZER;
atomic_long log_lines = 0;
atomic_int mon_log_errors = 0;
extern char __executable_start[], _end[];
NOINST void __wrap_syslog(int pri, const char *fmt, ...) {
	char line[1200];
	/* a format that is not a constant of the program image (stack / heap buffer) and contains a conversion is a format-string defect:
	 * input bytes (ids from the configuration files, received data) would be interpreted by printf. Reported; the text is then logged verbatim */
	if (!(fmt >= __executable_start && fmt < _end) && strchr(fmt, '%')) {
		static atomic_int once = 0;
		if (!atomic_exchange(&once, 1)) {
			char esc[200]; int k = 0;
			for (const char *c = fmt; *c && k < 190; c++) esc[k++] = (*c == '"' || *c == '\\' || (unsigned char)*c < 32) ? '?' : *c;
			esc[k] = 0;
			hx_violation("format-string", "syslog called with a non-constant format containing conversions: %s", esc);
		}
		snprintf(line, sizeof line, "%s", fmt);
	} else {
		va_list ap; va_start(ap, fmt); vsnprintf(line, sizeof line, fmt, ap); va_end(ap);
	}
	if ((pri & 7) <= 3 && mon_log_errors) {
		char esc[300]; int k = 0;
		for (const char *c = line; *c && k < 290; c++) { if (*c == '"' || *c == '\\') esc[k++] = '\''; else if ((unsigned char)*c < 32) esc[k++] = ' '; else esc[k++] = *c; }
		esc[k] = 0;
		ev("\"e\":\"logerr\",\"line\":\"%s\"", esc);
	}
	__real_pthread_mutex_lock(&log_mx);
	snprintf(logring[logpos % LOGRING], 256, "<%d> %s", pri, line);
	logpos++; log_lines++;
	__real_pthread_mutex_unlock(&log_mx);
}
NOINST void __wrap_openlog(const char *ident, int opt, int fac) { (void)ident; (void)opt; (void)fac; }
NOINST void __wrap_closelog(void) {}
NOINST void mon_dump_log(int last) {
	__real_pthread_mutex_lock(&log_mx);
	int from = logpos - last; if (from < 0) from = 0; if (logpos - from > LOGRING) from = logpos - LOGRING;
	for (int i = from; i < logpos; i++) {
		char esc[300]; int k = 0;
		for (const char *c = logring[i % LOGRING]; *c && k < 290; c++) { if (*c == '"' || *c == '\\') esc[k++] = '\''; else if ((unsigned char)*c < 32) esc[k++] = ' '; else esc[k++] = *c; }
		esc[k] = 0;
		__real_pthread_mutex_unlock(&log_mx);
		ev("\"e\":\"log\",\"line\":\"%s\"", esc);
		__real_pthread_mutex_lock(&log_mx);
	}
	__real_pthread_mutex_unlock(&log_mx);
}

/* ------------------------------------------------------------------ contract monitor */
typedef struct { void *fn; const char *name; const char *req[4]; } contract_t;
extern contract_t hx_contracts[];
extern int hx_contract_count;
atomic_long mon_contract_checks = 0, mon_contract_viol = 0;
static contract_t **chash = NULL; static int chash_n = 0;
static atomic_long contract_hits[256];

NOINST static void chash_build(void) {
	chash_n = 1; while (chash_n < hx_contract_count * 4 + 8) chash_n <<= 1;
	chash = calloc(chash_n, sizeof *chash);
	for (int i = 0; i < hx_contract_count; i++) {
		if (!hx_contracts[i].fn) continue;
		size_t h = ((uintptr_t)hx_contracts[i].fn >> 4) & (chash_n - 1);
		while (chash[h]) h = (h + 1) & (chash_n - 1);
		chash[h] = &hx_contracts[i];
	}
}
NOINST void __cyg_profile_func_enter(void *fn, void *site) {
	(void)site;
	if (sp_kind && sp_fn && hx_role != ROLE_HARNESS) {
		static __thread int in_sp = 0;
		if (!in_sp) { in_sp = 1; Dl_info di; const char *nm = (dladdr(fn, &di) && di.dli_sname) ? di.dli_sname : "static-fn"; sched_point("fn", nm); in_sp = 0; }
	}
	if (!mon_armed || !mon_contracts_on || !chash) return;
	if (hx_role == ROLE_HARNESS) return;
	size_t h = ((uintptr_t)fn >> 4) & (chash_n - 1);
	contract_t *c;
	while ((c = chash[h])) { if (c->fn == fn) break; h = (h + 1) & (chash_n - 1); }
	if (!c) return;
	atomic_fetch_add(&mon_contract_checks, 1);
	int idx = (int)(c - hx_contracts); if (idx < 256) atomic_fetch_add(&contract_hits[idx], 1);
	for (int i = 0; i < 4 && c->req[i]; i++) {
		if (!mon_holds(c->req[i], 0)) {
			atomic_fetch_add(&mon_contract_viol, 1);
			char d[512]; mon_held_describe(d, sizeof d);
			hx_violation("contract", "%s entered without %s (held: [%s]; api call %s)", c->name, c->req[i], d, hx_curcall);
		}
	}
}
NOINST void __cyg_profile_func_exit(void *fn, void *site) { (void)fn; (void)site; }
NOINST void mon_report_contracts(void) {
	char buf[8192]; size_t k = 0; int reached = 0;
	k += snprintf(buf + k, sizeof buf - k, "{");
	for (int i = 0; i < hx_contract_count && i < 256; i++) if (contract_hits[i] && k + 128 < sizeof buf) {
		k += snprintf(buf + k, sizeof buf - k, "%s\"%s\":%ld", reached ? "," : "", hx_contracts[i].name, (long)contract_hits[i]);
		reached++;
	}
	snprintf(buf + k, sizeof buf - k, "}");
	ev("\"e\":\"contracts\",\"total\":%d,\"reached\":%d,\"hits\":%s", hx_contract_count, reached, buf);
}


/* ------------------------------------------------------------------ container lockset monitor (Eraser over glib containers)
 * glib is not instrumented, so ThreadSanitizer cannot see accesses made inside it. Every glib call the LIBRARY makes on a queue, hash
 * table or array is interposed; per container the candidate lockset is the intersection of the locks held at each access while the
 * library is running (write accesses count only locks held exclusively). A container touched by two threads whose candidate set
 * becomes empty is reported once. */
#include <glib.h>
#define MAXCONT 4096
typedef struct { void *p; uint64_t ls_any, ls_excl; int first_tid, multi, reported, writes; long nacc; } cont_t;
static cont_t conts[MAXCONT];
atomic_long mon_container_accesses = 0, mon_containers_shared = 0;
NOINST static cont_t *cont_find(void *p, int create) {
	size_t h = ((uintptr_t)p >> 4) % MAXCONT;
	for (int k = 0; k < MAXCONT; k++) {
		cont_t *c = &conts[(h + k) % MAXCONT];
		if (c->p == p) return c;
		if (!c->p) { if (!create) return NULL; c->p = p; c->ls_any = c->ls_excl = ~0ULL; c->first_tid = -1; c->multi = c->reported = c->writes = 0; c->nacc = 0; return c; }
	}
	return NULL;
}
NOINST static void cont_reset(void *p) {
	__real_pthread_mutex_lock(&mon_mx);
	cont_t *c = cont_find(p, 0);
	if (c) { c->ls_any = c->ls_excl = ~0ULL; c->first_tid = -1; c->multi = c->reported = c->writes = 0; c->nacc = 0; }
	__real_pthread_mutex_unlock(&mon_mx);
}
NOINST static void cont_access(void *p, int is_write, const char *what) {
	if (!p || !mon_armed || hx_role == ROLE_HARNESS) return;
	thr_t *t = self();
	uint64_t any = 0, excl = 0;
	for (int i = 0; i < t->nheld; i++) { any |= 1ULL << t->held[i].li; if (t->held[i].mode != 1) excl |= 1ULL << t->held[i].li; }
	int report = 0; char d[512];
	__real_pthread_mutex_lock(&mon_mx);
	cont_t *c = cont_find(p, 1);
	if (c) {
		c->nacc++;
		if (c->first_tid < 0) c->first_tid = hx_tid; else if (c->first_tid != hx_tid && !c->multi) { c->multi = 1; atomic_fetch_add(&mon_containers_shared, 1); }
		c->ls_any &= any; c->ls_excl &= excl;
		if (is_write) c->writes++;
		/* a data race needs a write: readers must share a lock with the writers (any mode), writers need an exclusively held one */
		if (c->multi && c->writes && !c->reported && (c->ls_any == 0 || (is_write && c->ls_excl == 0 && c->ls_any == 0))) { c->reported = 1; report = 1; }
	}
	__real_pthread_mutex_unlock(&mon_mx);
	atomic_fetch_add(&mon_container_accesses, 1);
	if (report) { mon_held_describe(d, sizeof d); hx_violation("container-lockset", "%s on a container shared between threads with no common lock (held now: [%s]; api call %s)", what, d, hx_curcall); }
}
#define W(ret, name, params, args, cont, wr) ret __real_##name params; NOINST ret __wrap_##name params { cont_access((void *)(cont), wr, #name); return __real_##name args; }
#define WV(name, params, args, cont, wr) void __real_##name params; NOINST void __wrap_##name params { cont_access((void *)(cont), wr, #name); __real_##name args; }
WV(g_queue_push_tail, (GQueue *q, gpointer d), (q, d), q, 1)
W(gpointer, g_queue_pop_head, (GQueue *q), (q), q, 1)
W(gpointer, g_queue_peek_head, (GQueue *q), (q), q, 0)
W(gboolean, g_queue_is_empty, (GQueue *q), (q), q, 0)
W(guint, g_queue_get_length, (GQueue *q), (q), q, 0)
W(GList *, g_queue_find_custom, (GQueue *q, gconstpointer d, GCompareFunc f), (q, d, f), q, 0)
W(gpointer, g_hash_table_lookup, (GHashTable *h, gconstpointer k), (h, k), h, 0)
W(gboolean, g_hash_table_insert, (GHashTable *h, gpointer k, gpointer v), (h, k, v), h, 1)
W(GArray *, g_array_append_vals, (GArray *a, gconstpointer d, guint n), (a, d, n), a, 1)
W(GArray *, g_array_remove_range, (GArray *a, guint i, guint n), (a, i, n), a, 1)
void __real_g_queue_free(GQueue *q); NOINST void __wrap_g_queue_free(GQueue *q) { cont_reset(q); __real_g_queue_free(q); }
void __real_g_hash_table_destroy(GHashTable *h); NOINST void __wrap_g_hash_table_destroy(GHashTable *h) { cont_reset(h); __real_g_hash_table_destroy(h); }
gchar *__real_g_array_free(GArray *a, gboolean f); NOINST gchar *__wrap_g_array_free(GArray *a, gboolean f) { cont_reset(a); return __real_g_array_free(a, f); }
GQueue *__real_g_queue_new(void); NOINST GQueue *__wrap_g_queue_new(void) { GQueue *q = __real_g_queue_new(); cont_reset(q); return q; }

NOINST void mon_init(uint64_t seed) {
	static int once = 0;
	mon_seed = seed ? seed : 1;
	if (once++) return;
	mon_lock_names_init();
	chash_build();
	self();
}
