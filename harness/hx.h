/* Shared declarations of the verification harness (player + monitors + simbus).
 * None of this is part of libbidib; it is linked together with the library's
 * objects, with ld --wrap interposing pthread/usleep/time/syslog calls. */
#ifndef HX_H
#define HX_H

#include <stdint.h>
#include <stddef.h>
#include <stdbool.h>
#include <stdarg.h>
#include <pthread.h>
#include <stdatomic.h>

/* ---- thread roles ---- */
enum { ROLE_APP = 0, ROLE_RECEIVER = 1, ROLE_AUTOFLUSH = 2, ROLE_HEARTBEAT = 3, ROLE_WORKER = 4, ROLE_HARNESS = 5 };
extern __thread int hx_role;
extern __thread int hx_tid;          /* small integer id of the thread (0 = main) */
int hx_new_tid(void);

/* ---- event log ---- */
void ev_open(const char *path);
void ev(const char *fmt, ...) __attribute__((format(printf, 1, 2)));   /* one JSON object body (without braces / n) */
uint64_t ev_seq(void);
void hexstr(char *dst, const uint8_t *p, size_t n);

/* ---- real (unwrapped) primitives for harness-private synchronisation ---- */
int __real_pthread_mutex_lock(pthread_mutex_t *);
int __real_pthread_mutex_unlock(pthread_mutex_t *);
int __real_pthread_mutex_trylock(pthread_mutex_t *);
int __real_pthread_mutex_init(pthread_mutex_t *, const pthread_mutexattr_t *);
int __real_pthread_rwlock_rdlock(pthread_rwlock_t *);
int __real_pthread_rwlock_wrlock(pthread_rwlock_t *);
int __real_pthread_rwlock_unlock(pthread_rwlock_t *);
int __real_pthread_rwlock_init(pthread_rwlock_t *, const pthread_rwlockattr_t *);
int __real_pthread_create(pthread_t *, const pthread_attr_t *, void *(*)(void *), void *);
int __real_pthread_join(pthread_t, void **);
int __real_usleep(unsigned int);
struct timespec;
int __real_clock_gettime(int clk, struct timespec *ts);

/* ---- monitors (mon.c) ---- */
extern atomic_int mon_armed;        /* contract + lockset monitors active */
extern atomic_int mon_perturb;      /* per-mille probability of a yield/sleep at lock ops */
extern atomic_int mon_contracts_on;
void mon_init(uint64_t seed);
int  mon_held_count(void);            /* locks held by the calling thread */
void mon_held_describe(char *dst, size_t n);
void mon_dump_all(const char *why);   /* dumps per-thread held/awaited locks to the event log */
int  mon_find_cycle(char *dst, size_t n); /* wait-for cycle among threads? */
void mon_report_edges(void);          /* emits the lock-order graph */
int  mon_receiver_blocked_by_me(void);
int  mon_live_lib_threads(void);      /* library threads created and not yet joined */
void mon_thread_summary(void);
void mon_lock_names_init(void);
extern atomic_long mon_contract_checks, mon_contract_viol, mon_lock_ops;
void hx_violation(const char *cls, const char *fmt, ...) __attribute__((format(printf, 2, 3)));
extern atomic_int hx_violations;

/* ---- virtual time (mon.c) ---- */
extern _Atomic int64_t vt_usec;      /* virtual microseconds since process start */
void vt_advance_us(int64_t us);

/* ---- simulated bus (simbus.c) ---- */
void bus_reset(void);
uint8_t bus_read_cb(int *ok);
void bus_write_cb(uint8_t *bytes, int32_t n);
void bus_push_raw(const int16_t *items, size_t n);      /* -1 = "no data" gap */
void bus_push_packet(const uint8_t *payload, size_t n); /* frames payload (escape + CRC) */
int  bus_wait_quiescent(int max_ms);                    /* 0 ok, 1 timed out */
void bus_receiver_idle_wait(void);
void bus_set_receiver_alive(int alive);
int  bus_config_line(int argc, char **argv);            /* "bus ..." scenario lines; 0 ok */
uint8_t crc8_update(uint8_t crc, uint8_t b);
extern volatile long bus_tx_msgs, bus_tx_bytes, bus_rx_pkts;

/* ---- snapshot (snapshot.c) ---- */
void snap_full(const char *tag);      /* bidib_get_state + every single getter, as one event */
void snap_keep_and_check(const char *phase);  /* C17 deep-copy probe */

/* ---- generated dispatch (gen_dispatch.c) ---- */
typedef struct { int argc; char **argv; } hx_args;
int dispatch_call(const char *fname, int argc, char **argv, char *res, size_t resn); /* 0 ok, -1 unknown fn, -2 bad args */
extern const char *const dispatch_names[];
extern const int dispatch_count;

/* arg helpers used by generated code */
long  arg_int(const char *tok, int *err);
char *arg_str(const char *tok, int *err);       /* malloc'd exact-size copy or NULL for @null */
uint8_t *arg_bytes(const char *tok, size_t *len, int *err); /* exact-size heap buffer or NULL */

#endif
