#!/bin/bash
# usage: try_seed.sh <seed-name> <ID> [tier]
# Runs the check of property <ID> against a scratch worktree of /repo HEAD with seeded/<name>/patch.diff applied (VERIF_REPO points the
# build at it); /repo itself is never touched. The worktree is removed afterwards.
V=$(cd "$(dirname "$0")/.." && pwd)
NAME=$1; ID=$2; TIER=${3:-quick}
WT=/tmp/wt/try-$NAME-$$
git -C /repo worktree add -q --detach "$WT" HEAD || exit 2
if ! git -C "$WT" apply "$V/seeded/$NAME/patch.diff"; then echo "patch does not apply"; git -C /repo worktree remove --force "$WT"; exit 2; fi
( cd "$V" && VERIF_REPO="$WT" ./check $ID --tier $TIER > /tmp/try_$NAME_$ID.out 2>&1; echo $? > /tmp/try_$NAME_$ID.rc )
rc=$(cat /tmp/try_$NAME_$ID.rc)
grep -E "VIOLATION|KNOWN-FINDING|INCONCLUSIVE|HARNESS|^\[C" /tmp/try_$NAME_$ID.out | cut -c1-${WIDTH:-300} | head -${LINES_OUT:-6}
git -C /repo worktree remove --force "$WT"
rm -rf "$V"/.build/*-tmp* 2>/dev/null
echo "try_seed $NAME on $ID: rc=$rc"
exit $rc
