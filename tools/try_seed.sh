#!/bin/bash
# usage: try_seed.sh <seed-name> <ID> [tier]   - applies seeded/<name>/patch.diff to /repo, runs the check, reverts.
V=$(cd "$(dirname "$0")/.." && pwd)
NAME=$1; ID=$2; TIER=${3:-quick}
git -C /repo diff --quiet || { echo "/repo not clean"; exit 2; }
git -C /repo apply "$V/seeded/$NAME/patch.diff" || { echo "patch does not apply"; exit 2; }
( cd "$V" && ./check $ID --tier $TIER 2>&1 | tail -${LINES_OUT:-6} ); rc=${PIPESTATUS[0]}
git -C /repo checkout -- . 
echo "try_seed $NAME on $ID: rc=$rc"
