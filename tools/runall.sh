#!/bin/bash
# usage: runall.sh [tier] [seed]  - runs every claimed check once, prints one line per check
V=$(cd "$(dirname "$0")/.." && pwd); cd "$V"
TIER=${1:-quick}; export VERIF_SEED=${2:-1}
for id in $(python3 -c "import json;print(' '.join(c['property_id'] for c in json.load(open('MANIFEST.json'))['checks']))"); do
  s=$(date +%s); out=$(./check $id --tier $TIER 2>&1); rc=$?; e=$(( $(date +%s) - s ))
  echo "$id rc=$rc ${e}s $(echo "$out" | grep -E 'VIOLATION|INCONCLUSIVE|HARNESS' | head -2 | cut -c1-200)"
done
