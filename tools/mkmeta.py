import json,sys
name, caught = sys.argv[1], sys.argv[2]
d='/verif/seeded/'+name
a=json.load(open(d+'/meta.agent.json'))
c=json.load(open(d+'/confirm.json'))
m={'property':a.get('property'), 'summary':a.get('summary'), 'needs_to_manifest':a.get('needs_to_manifest'), 'why_tests_pass':a.get('why_tests_pass'),
 'confirmed_here':{'how':'tools/confirm_seed.sh in a scratch worktree: cmake build, full ctest with the change (one retry of bidib_parallel_tests, which is timing sensitive under load), demo.sh with the change (must fail) and with the change reverted by git apply -R (must pass)', **c},
 'checked_with': f'tools/try_seed.sh {name} <ID> (scratch worktree via VERIF_REPO; /repo untouched)', 'caught_by': caught}
if len(sys.argv)>3: m['notes']=sys.argv[3]
json.dump(m, open(d+'/meta.json','w'), indent=1)
