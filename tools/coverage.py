#!/usr/bin/env python3
"""Supporting evidence, not a verdict: runs the quick workload of the given checks (default: all) against the gcov-instrumented build of
/repo's current tree and reports, per library source file, the lines the workloads reached and the ones they did not.
usage: tools/coverage.py [ID ...]   -> writes coverage/summary.json and coverage/uncovered.txt"""
import glob, json, os, re, subprocess, sys
V = os.path.dirname(os.path.dirname(os.path.abspath(__file__)))
sys.path.insert(0, V)
os.chdir(V)
os.environ['VERIF_COVERAGE'] = '1'
from vlib import build  # noqa: E402
ids = sys.argv[1:] or [c['property_id'] for c in json.load(open('MANIFEST.json'))['checks']]
player, bdir = build.ensure('cov')
for f in glob.glob(os.path.join(bdir, '*.gcda')):
    os.remove(f)
for i in ids:
    p = subprocess.run(['./check', i, '--tier', 'quick'], capture_output=True, text=True)
    print(i, 'rc', p.returncode, (p.stdout.strip().split('\n') or [''])[-1][:160], flush=True)
os.makedirs('coverage', exist_ok=True)
summary, unc = {}, []
for src in build.repo_sources():
    o = os.path.join(bdir, 'lib_' + os.path.basename(os.path.dirname(src)) + '_' + os.path.basename(src)[:-2] + '.o')
    if not os.path.exists(o[:-2] + '.gcda'):
        summary[os.path.relpath(src, build.REPO)] = {'lines': 0, 'covered': 0}
        continue
    subprocess.run(['gcov', '-b', '-o', bdir, o], cwd=bdir, capture_output=True, text=True)
    g = os.path.join(bdir, os.path.basename(src) + '.gcov')
    if not os.path.exists(g):
        continue
    tot = cov = 0
    miss = []
    for line in open(g, errors='replace'):
        m = re.match(r'\s*([^:]+):\s*(\d+):(.*)', line)
        if not m or m.group(2) == '0':
            continue
        c = m.group(1).strip()
        if c == '-':
            continue
        tot += 1
        if c.startswith('#####') or c.startswith('====='):
            miss.append((int(m.group(2)), m.group(3).rstrip()))
        else:
            cov += 1
    rel = os.path.relpath(src, build.REPO)
    summary[rel] = {'lines': tot, 'covered': cov, 'pct': round(100.0 * cov / tot, 1) if tot else 0}
    for ln, txt in miss:
        unc.append(f'{rel}:{ln}: {txt}')
json.dump(summary, open('coverage/summary.json', 'w'), indent=1)
open('coverage/uncovered.txt', 'w').write('\n'.join(unc) + '\n')
T = sum(v['lines'] for v in summary.values()); Cv = sum(v['covered'] for v in summary.values())
for k, v in sorted(summary.items()):
    print(f"{v.get('pct', 0):5.1f}%  {v['covered']:5d}/{v['lines']:5d}  {k}")
print(f'total {Cv}/{T} = {100.0 * Cv / max(T, 1):.1f}%')
