#!/usr/bin/env python3
"""Writes /verif/MANIFEST.json from the table below (kept in one place so it is always valid)."""
import json
import os

V = os.path.dirname(os.path.dirname(os.path.abspath(__file__)))
CHECKS = {
    'C10': ('four monitors on one stress workload (2-16 application threads x all thread-safe entry points x continuous uplink traffic x auto-flush, lock-level perturbation; tsan/asan/mon flavours): ThreadSanitizer reports in library code, contract monitor at every documented-lock accessor, history oracles (getter results of every receiver-written entity kind equal a state that existed during the call, entity invariants, each queued message returned exactly once), a lost-update oracle for read-modify-write commands with one writer per function, strict decode + sequence scan of the shared downlink stream; directed preemption (a command / the receiver / a getter paused at each of its scheduling points while the other side runs); container lockset monitor (Eraser over glib containers); reduced scenarios under valgrind helgrind',
            'TSan / helgrind ignore only the four volatile lifecycle flags; glib uninstrumented for TSan (container lockset monitor and helgrind cover it); schedules are sampled, plus one directed preemption per scenario step',
            'runtime monitoring: ThreadSanitizer + helgrind + lock-contract and container-lockset monitors + linearizability-style history oracles under stress and directed preemption'),
    'C11': ('link-time lock monitor over a systematic cross product (every public function x argument class x mode, all 256 uplink types and field sweeps (every value of one data byte of valid feedback about configured equipment) on the receiver thread, both user queues driven over their bound, every rejected-configuration class, sys_reset, spontaneous traffic during the start-up dialogue, the flow-control histories of C04), a stop-race sweep (bidib_stop against the auto-flush thread / the receiver parked at scheduling point k by directed preemption: no thread exits holding a lock) and concurrent stress: held-set empty at every return and whenever the receiver is back at the read callback; union lock-order graph observed while running must be acyclic; self-wait / wait-for cycle detection with watchdog',
            'acyclicity of the observed order only; reader-preferring rwlocks (recursive read acquisition is not an edge); allocation-failure paths not driven',
            'runtime monitoring: lock-order graph, held-set balance and wait-for-cycle monitors over systematic + stress workloads'),
    'C12': ('hostile uplink streams from five generators (noise, corrupted valid traffic, grammar-generated CRC-valid packets with adversarial length/address/type/field values, field sweeps over valid feedback about configured equipment, delimiter-less runs of 255-4096 bytes) in debug and normal mode against generated configurations, with host commands issued in between; zero ASan/UBSan reports, normal exit, and after every stream a probe packet must be delivered; batches per process with re-run of the tail after a crash',
            'gcc ASan (512 B red zones) + UBSan bounds-strict; probe preceded by a resync delimiter; uninitialised reads not part of the statement',
            'runtime monitoring: ASan/UBSan + liveness probe oracle over generated hostile byte streams'),
    'C13': ('per case (own process): six identical start attempts with 1-3 structure-aware mutations of a valid configuration triple (answering or silent interface), then a start with a valid configuration; return value in {0,1}, ASan/UBSan/LSan, held-set empty at return, no wait-for cycle / watchdog / virtual-time bound, no thread alive after a failed start, allocated bytes and open file descriptors not growing, no non-constant log format, valid restart verified through its getters',
            'watchdog 120 s per case, expiry inside bidib_start_pointer is a violation; leak criterion = growth at each of the last three of six identical attempts + LSan',
            'runtime monitoring: ASan/UBSan/LSan + lock/thread/heap monitors over mutated configurations'),
    'C17': ('memcheck V-bit probes (VALGRIND_GET_VBITS from the harness) of every API-meaningful field of every getter result for known, unknown and NULL ids; ASan keep / mutate / stop / re-read / free-once probe of kept results; field-by-field equality of bidib_get_state() with the single-entity getters at every snapshot',
            'gated fields probed only when their flag is set; padding never probed; valgrind 3.19 memcheck; gcc ASan/LSan',
            'runtime monitoring: valgrind memcheck V-bit probes + ASan/LSan + snapshot cross-check'),
    'C15': ('model node tree (address = path of local addresses, lost interface takes its subtree): connectivity getters after start (incl. a table change during enumeration, unknown nodes whose unique id is one byte off an absent configured board) and after each of 0-30 node-new/node-lost notices (incl. repeated ones), after an address swap followed by a second enumeration (sys_reset), one NODE_CHANGED_ACK(version) to the announcer per notice, a ping per board addressed to the model\'s current address or refused',
            'simulated bus node table updated alongside scripted notices; announcers of depth <= 2',
            'runtime monitoring: tree-model oracle over getter snapshots and decoded wire + ASan/UBSan'),
    'C16': ('stop transcript vs. model per connected track output, also inside a failed start during which a configured track output logged on; link-time thread monitor (create/join exactly once, none alive after stop or failed start); heap and file-descriptor conservation over six identical sessions (ASan allocator statistics, LSan); idempotent stop/start (incl. the auto-flush period of the running session); sessions on a line that never falls silent (idle delimiters / babble during stop and failing starts); two probe sessions (normal mode: per-node transcripts, snapshots, return values; low-level debug mode: the bytes written, i.e. packet boundaries and sequence numbers) as sessions k, k+1 after sessions of every kind (incl. another configuration of the same node tree) vs. the same two sessions in a fresh process',
            'pthread_create/join interposed with ld --wrap; __sanitizer_get_current_allocated_bytes; decoded message lists compared per node',
            'runtime monitoring: lifecycle monitors (threads, heap, transcript, session equivalence) + ASan/LSan'),
    'C19': ('per occupancy report of SecAck / non-SecAck boards the decoded wire at the next quiescent point without any flush step: exactly one mirror with identical number/payload (packets with several reports from several nodes, malformed last message, the application reading and freeing the queue while the receiver is parked inside the report), none for boards without feature 0x03>0 (absent boards, address reuse, re-login, an earlier session of the same process with the opposite SecAck setting); stalled or budget-blocked board: mirrors owed and delivered in order exactly once after release',
            'a report counts from the quiescent point after it was fed; known finding: position mirror lacks the address bytes',
            'runtime monitoring: per-event wire oracle at quiescent points + ASan/UBSan'),
    'C20': ('order constraints and multiset equality over the decoded downlink transcript of a start and of bidib_send_sys_reset: FEATURE_SET only to connected configured boards and before SYS_ENABLE, GO to every connected track output, then every configured initial point/signal/peripheral aspect and train function exactly once (C09 encoding), nothing for absent boards - also when the switch-on answer is lost / reports OFF and when a board is reported lost during start-up',
            'speed-0/all-zero CS_DRIVE and the library\'s own queries unconstrained; encoder of C09',
            'runtime monitoring: transcript oracle (order + multiset) over decoded wire + ASan/UBSan'),
    'C14': ('generator emits configurations together with their abstract description: valid ones must be accepted and every enumeration getter and the initial snapshot must equal the description; each single-fault class of the statement (28 classes sampled stratified by variant shape, calibration as list of wrong length / scalar / empty, duplicates against adjacent and non-adjacent elements, DCC addresses over the full 16 bits, identifiers with printf conversions) applied at sampled applicable positions must give return value 1',
            'documented layout = key order/optional parts of example/config and the test configs; cross-kind collisions not generated',
            'runtime monitoring: description-vs-getter oracle over generated configurations and single-fault mutations + ASan/UBSan + lock monitor'),
    'C07': ('reference state fold over the recorded uplink/downlink history compared field by field with bidib_get_state() and every single-entity getter at sampled snapshots; generated configurations x node trees x histories of state-bearing messages with full value ranges (1-4 messages per packet, arbitrary sequence numbers, repeated reports, bad-CRC packets without effect, feedback during start-up), interleaved with drive / DCC-accessory commands',
            'reference fold vlib/statemodel.py; undocumented initial values of DCC accessories unconstrained until first written; gcc ASan/UBSan',
            'runtime monitoring: reference-model oracle over recorded message history vs. getter snapshots + ASan/UBSan'),
    'C08': ('per-snapshot consistency (presence/position/orientation vs. segment address lists) after every processed report plus the reference fold; concurrent part: known state sequence S0..Sn (single receiver, one message per packet) and call/return-stamped getter results that must equal some Si in the window, train data never older than segment data (asan+tsan); directed variant: the receiver paused at each scheduling point of one report while the getters are called; detector boards dropping off the bus',
            'processing of packet j lies between its rxc/rxdone events; reference fold; perturbation at lock operations',
            'runtime monitoring: history-vs-model atomicity oracle over stamped getter results + snapshot invariants + TSan'),
    'C09': ('model encoder from the abstract configuration: per high-level command the return value and the decoded wire up to the next quiescent point (every id x aspect, every speed, every function bit with history, unknown / near-miss / disconnected / NULL / out-of-range, boards lost or moved to another address by notices), snapshots against the reference fold after error commands',
            'encoder in vlib/props/C09.py written from header docs and bidib_messages.h; accessory numbers/aspect values in 0..127',
            'runtime monitoring: spec-encoder oracle over decoded wire and getter snapshots + ASan/UBSan'),
    'C04': ('reference flow-control model with the stall set over address prefixes compared with the wire at a checkpoint after every step (nested stalls in both orders, repeated notices, unstall without stall, budget interaction incl. leftovers answered during a stall, virtual time passing); stress variant with sender threads after a processed stall notice (asan+tsan)',
            'reference model vlib/flow.py; a stall notice counts from the quiescent point after it was fed',
            'runtime monitoring: reference-model oracle over recorded wire/uplink history + stress under TSan'),
    'C02': ('reference receiver decoder applied to the same corrupted byte stream decides which packets are good; delivered messages (debug-mode queue) must equal them in order, once; packets up to the largest size, shared / lost delimiters, over-long packets; five chunkings incl. gaps after escapes and long silences inside packets; normal-mode histories (multi-message packets from senders on all address levels, judged through their state effect); round trip of the sender\'s own output',
            'reference decoder in vlib/model.py; packets <= 255 bytes (longer ones are C12); gcc ASan/UBSan',
            'runtime monitoring: reference-decoder oracle over fed byte streams vs. delivered messages + ASan/UBSan'),
    'C03': ('exact reference flow-control model for clean single-submitter histories compared with the wire at every checkpoint (budget, held FIFO, release after answers and after expiry under virtual time; histories mixing stall notices with budget deferral); two-sided-safe lower bound on outstanding bytes for duplicated/out-of-order answers and for sender threads racing the receiver (asan+tsan)',
            'own request->answer/size table; virtual time() via link-time wrapper; expiry probed at +1 s/+3 s with the opportunity (uplink message) the library needs to notice it',
            'runtime monitoring: reference-model oracle over recorded wire/uplink history, virtual time, stress + TSan'),
    'C06': ('destination table (README + statement) vs. where each of all 256 type codes is found (message/error/intern queue or consumed) in both modes; queue bound/drop-oldest/FIFO model at fill levels around 128; user-queue messages arriving during the start-up dialogue; exactly-once over 1-8 reader threads racing the receiver (asan with LSan, tsan)',
            'destination table vlib/uplink.py; MSG_VENDOR and undocumented booster states accept any single destination; intern queue read through bidib_read_intern_message',
            'runtime monitoring: routing/queue-model oracle over drained queues + ASan/LSan/TSan'),
    'C01': ('strict reference decoder over everything handed to write_n, multiset/order equality with the reference encoding of every accepted call, capacity bound; sequential (debug), every capacity 0..255, capacities re-announced in mid-session, a debug session after a session with a larger capacity and the staging-buffer boundary (normal mode), concurrent senders with auto-flush under asan+tsan, directed preemption of a sender / flush',
            'reference codec (bitwise CRC) and spec table in vlib/; simulated bus answers every request; gcc ASan/UBSan/TSan',
            'runtime monitoring: reference-decoder oracle over recorded wire bytes + ASan/UBSan/TSan'),
    'C05': ('per-node sequence-number oracle over the decoded wire under 2-16 sender threads, budget deferral released by the receiver thread, 255->1 wrap, lock-level perturbation, asan+tsan; a peer thread sending every uplink type in normal mode; directed sweeps over every scheduling point of a send and of the receiver while it releases held messages; the workloads of C03/C04/C09/C15/C16/C19/C20 (library-internal submitters, several sessions) judged per session',
            'reference decoder; perturbation at every lock operation via link-time wrappers; schedules are sampled, not enumerated',
            'runtime monitoring: ordering oracle over recorded wire history under stress + TSan'),
    'C18': ('boundary sweep of every public bidib_send_* function against an independent spec table (header docs + bidib_messages.h): decoded wire after each call, ASan/UBSan on exact-size argument buffers (mixed content incl. zero bytes, empty buffers also as NULL); normal-mode part: state-tracked commands repeated with the same arguments against an acknowledging peer; re-entrancy sweep: every function called by two threads with different arguments, one paused at its first scheduling points',
            'spec table vlib/spec_lowlevel.py; gcc ASan/UBSan red zones (512 B); reference decoder; low-level debug mode session',
            'runtime monitoring: spec-table oracle over decoded wire + ASan/UBSan'),
}
props = [json.loads(l) for l in open(os.path.join(V, 'properties.jsonl'))]
checks = []
na = []
for p in props:
    pid = p['id']
    if pid in CHECKS:
        text, note, tech = CHECKS[pid]
        checks.append({
            'property_id': pid, 'quick_cmd': f'./check {pid} --tier quick', 'thorough_cmd': f'./check {pid} --tier thorough',
            'evidence_file': f'evidence/{pid}.json', 'replay_cmd_template': f'./check {pid} --replay {{path}}',
            'engine': 'player',
            'level_claimed': {'category': 'exploration', 'text': text, 'design_ref': f'DESIGN.md §4 {pid}'},
            'level_note': note, 'technique': tech})
    else:
        na.append({'property_id': pid, 'reason': 'check not built yet in this round (work in progress; the technique applies, see DESIGN.md §4)'})
m = {
    'version': 1,
    'setup_cmd': './check --setup',
    'hooks': {
        'guard': 'LIBBIDIB_VERIF',
        'enable': 'no source hooks: checks compile /repo/src/*/*.c straight into the harness with -DLIBBIDIB_VERIF=1, interpose pthread_*/usleep/time/syslog at link time (ld --wrap) and use -finstrument-functions',
        'baseline_off_cmd': 'cmake -G Ninja -S /repo -B /repo/_build && cmake --build /repo/_build && ctest --test-dir /repo/_build -j8 --timeout 900',
        'source_commits': [],
        'add_only': True,
    },
    'engines': [{'name': 'player', 'path': 'harness/', 'serves_properties': sorted(CHECKS),
                 'kind_free_text': 'scenario player linked with the library objects + link-time monitors (locks, threads, virtual time, contracts) + simulated BiDiB bus; Python generators and offline oracles in vlib/'}],
    'checks': checks,
    'not_applicable': na,
    'notes': 'All checks rebuild the player from the current /repo working tree (content-hashed build dirs under .build/).',
}
json.dump(m, open(os.path.join(V, 'MANIFEST.json'), 'w'), indent=1)
print('MANIFEST: %d checks, %d not yet claimed' % (len(checks), len(na)))
