#!/bin/bash
# usage: confirm_seed.sh <worktree> <outdir> <seed-name>
# Confirms a seeded change independently: builds + full ctest with the change, demo fails with it, passes without it.
# On success copies patch.diff / demo / meta.json to /verif/seeded/<seed-name>/.
set -u
WT=$1; OUT=$2; NAME=$3
V=$(cd "$(dirname "$0")/.." && pwd)
cd "$WT" || exit 2
# the worktree must carry exactly the agent's patch
if [ -s "$OUT/patch.diff" ]; then git checkout -q -- . && git apply "$OUT/patch.diff" || { echo "agent patch does not apply"; exit 2; }; fi
git diff -- src include > /tmp/confirm_$NAME.diff
if ! [ -s /tmp/confirm_$NAME.diff ]; then echo "no diff in worktree"; exit 2; fi
log=/tmp/confirm_$NAME.log; : > $log
build() { cmake -G Ninja -S "$WT" -B "$WT/_build" >>$log 2>&1 && cmake --build "$WT/_build" >>$log 2>&1; }
build || { echo "BUILD FAILED with change"; exit 1; }
ctest --test-dir "$WT/_build" -j8 --timeout 900 > /tmp/confirm_$NAME.ctest 2>&1
tests=$(grep -E "tests passed|tests failed" /tmp/confirm_$NAME.ctest | tail -1)
echo "ctest with change: $tests"
if ! grep -q "100% tests passed" /tmp/confirm_$NAME.ctest; then
  # bidib_parallel_tests is timing sensitive under load: one retry of the failing tests
  ctest --test-dir "$WT/_build" --rerun-failed --timeout 900 > /tmp/confirm_$NAME.ctest2 2>&1
  grep -q "100% tests passed" /tmp/confirm_$NAME.ctest2 || { echo "TESTS FAIL with change (also on retry)"; exit 1; }
  tests="$tests; failed ones passed on retry"
fi
bash "$OUT/demo.sh" "$WT" > /tmp/confirm_$NAME.demo_with 2>&1; rc_with=$?
echo "demo with change: rc=$rc_with: $(tail -2 /tmp/confirm_$NAME.demo_with | tr '\n' ' ')"
# NOTE: never git stash here - the stash is shared between all worktrees of a repository
git apply -R /tmp/confirm_$NAME.diff || exit 2
build; bash "$OUT/demo.sh" "$WT" > /tmp/confirm_$NAME.demo_without 2>&1; rc_without=$?
echo "demo without change: rc=$rc_without: $(tail -2 /tmp/confirm_$NAME.demo_without | tr '\n' ' ')"
git apply /tmp/confirm_$NAME.diff || exit 2
build
if [ $rc_with -ne 0 ] && [ $rc_without -eq 0 ]; then
  mkdir -p "$V/seeded/$NAME"
  cp /tmp/confirm_$NAME.diff "$V/seeded/$NAME/patch.diff"
  cp "$OUT"/demo* "$V/seeded/$NAME/" 2>/dev/null
  cp "$OUT/meta.json" "$V/seeded/$NAME/meta.agent.json" 2>/dev/null
  echo "{\"ctest_with_change\": \"$tests\", \"demo_rc_with_change\": $rc_with, \"demo_rc_without_change\": $rc_without}" > "$V/seeded/$NAME/confirm.json"
  echo CONFIRMED
  exit 0
fi
echo "NOT CONFIRMED"
exit 1
