#!/bin/bash
# usage: soak.sh <first-seed> <last-seed> [tier]   - every claimed check must stay silent on the unchanged tree for every seed
V=$(cd "$(dirname "$0")/.." && pwd); cd "$V"
for seed in $(seq $1 $2); do
  tools/runall.sh ${3:-quick} $seed | sed "s/^/seed=$seed /"
done
