#!/usr/bin/env python3
"""usage: mkprompts.py <round letter> [ids...] - writes /tmp/seedout/C<nn><r>/PROMPT.txt for a new round of seeded changes and creates the scratch
worktrees /tmp/wt/C<nn><r>. The prompt carries the property text and the summaries of the changes already used for it (from the earlier agents'
own meta files) - nothing else from /verif."""
import glob, json, os, subprocess, sys
r = sys.argv[1]
props = {}
for l in open('/verif/properties.jsonl'):
    p = json.loads(l)
    props[p['id']] = p
ids = sys.argv[2:] or sorted(props)
tmpl = open('/verif/tools/seed_prompt.tmpl').read()
for pid in ids:
    n = pid + r
    wt, out = f'/tmp/wt/{n}', f'/tmp/seedout/{n}'
    os.makedirs(out, exist_ok=True)
    used = []
    for d in sorted(glob.glob(f'/verif/seeded/{pid}-*/meta.json')):
        used.append(' - ' + json.load(open(d))['summary'][:900].replace('\n', ' '))
    text = tmpl.replace('@WT@', wt).replace('@OUT@', out).replace('@ID@', pid).replace('@TITLE@', props[pid]['title']).replace('@STATEMENT@', props[pid]['statement']).replace('@USED@', '\n'.join(used))
    open(out + '/PROMPT.txt', 'w').write(text)
    if not os.path.isdir(wt):
        subprocess.run(['git', '-C', '/repo', 'worktree', 'add', '-q', '--detach', wt, 'HEAD'], check=True)
    print(n, len(used), 'earlier changes listed')
