"""Helpers to write scenario text for the player."""

def addr_tok(addr):
    a = list(addr) + [0, 0, 0]
    return f'{a[0]} {a[1]} {a[2]}'

def s(v):
    return '@null' if v is None else 's:' + v

def h(b):
    return '@null' if b is None else 'h:' + bytes(b).hex()

def call(fn, *toks):
    return 'call ' + fn + (' ' + ' '.join(str(t) for t in toks) if toks else '')

def up(*msgs):
    return 'up ' + ' '.join(bytes(m).hex() for m in msgs)

def raw(items):
    """items: list of ints (bytes) and None (gap)"""
    out = []
    cur = bytearray()
    for it in items:
        if it is None or isinstance(it, tuple):
            if cur:
                out.append(cur.hex()); cur = bytearray()
            out.append('--' if it is None else f'--{it[1]}')          # ('gap', n): n consecutive polls without data
        else:
            cur.append(it)
            if len(cur) >= 64:
                out.append(cur.hex()); cur = bytearray()
    if cur:
        out.append(cur.hex())
    return 'raw ' + ' '.join(out)

class Scn:
    def __init__(self, seed=1, perturb=0, watchdog=60000):
        self.lines = [f'seed {seed}', f'perturb {perturb}', f'watchdog {watchdog}']

    def add(self, *ls):
        self.lines.extend(ls)
        return self

    def text(self):
        from . import cfggen
        pre = []
        seen = set()
        for l in self.lines:
            for tok in l.split():
                if tok in cfggen.REGISTRY and tok not in seen:
                    seen.add(tok)
                    pre += cfggen.cfgfile_lines(tok)
        return '\n'.join(self.lines[:3] + pre + self.lines[3:]) + '\n'
