"""Runs scenarios through the player (one process per scenario), collects the event log and the
sanitizer reports, and reduces every failure to a line-number-free signature."""
import glob
import json
import os
import re
import shutil
import subprocess
import time
from concurrent.futures import ThreadPoolExecutor

from . import build

VERIF = build.VERIF
RUN_ROOT = os.path.join(VERIF, '.run')
_counter = [0]
MAXLOG = [0]
HANGS = [0]

def run_dir():
    d = os.path.join(RUN_ROOT, str(os.getpid()))
    os.makedirs(d, exist_ok=True)
    return d

def cleanup_run_dir():
    shutil.rmtree(os.path.join(RUN_ROOT, str(os.getpid())), ignore_errors=True)

class Result:
    __slots__ = ('events', 'rc', 'san', 'scenario', 'workdir', 'wall', 'flavour', 'timed_out', 'stderr', 'tag')

    def by(self, kind):
        return [e for e in self.events if e.get('e') == kind]

    def viols(self):
        return [e for e in self.events if e.get('e') == 'viol']

    def ended(self):
        return any(e.get('e') == 'end' for e in self.events)

def san_env(flavour, wd, leaks=False):
    env = dict(os.environ)
    env['G_SLICE'] = 'always-malloc'
    env['G_DEBUG'] = 'gc-friendly'
    env['MALLOC_PERTURB_'] = '165'
    if flavour == 'asan':
        env['ASAN_OPTIONS'] = ('redzone=512:max_redzone=2048:detect_stack_use_after_return=1:'
                               'detect_leaks=%d:exitcode=97:log_path=%s/san:abort_on_error=0:allocator_may_return_null=1:'
                               'malloc_context_size=12' % (1 if leaks else 0, wd))
        env['UBSAN_OPTIONS'] = 'print_stacktrace=1:log_path=%s/san' % wd
        env['LSAN_OPTIONS'] = 'exitcode=97'
    elif flavour == 'cov':
        # the objects were compiled in a temporary directory that was renamed afterwards: redirect the .gcda files into the build directory
        _p, bdir = build.ensure('cov')
        env['GCOV_PREFIX'] = bdir
        env['GCOV_PREFIX_STRIP'] = str(len([c for c in bdir.split('/') if c]))
    elif flavour == 'tsan':
        env['TSAN_OPTIONS'] = ('halt_on_error=0:second_deadlock_stack=1:log_path=%s/san:exitcode=66:history_size=4:'
                               'suppressions=%s/tsan.supp:report_signal_unsafe=0' % (wd, VERIF))
    return env

def run_scenario(flavour, text, timeout=180, leaks=False, valgrind=None, keep=False, tag=None):
    if os.environ.get('VERIF_COVERAGE') and not valgrind:
        flavour = 'cov'            # tools/coverage.py: same workloads, gcov-instrumented library, verdicts ignored
    player, _ = build.ensure(flavour)
    _counter[0] += 1
    wd = os.path.join(run_dir(), 'c%d_%d' % (_counter[0], int(time.time() * 1e6) % 1000000))
    os.makedirs(wd, exist_ok=True)
    sp = os.path.join(wd, 's.txt')
    run_text = text
    if HANGS[0] >= 3:
        # this tree has already shown three hangs in this check: the verdict is settled, do not spend the full watchdog on every further one
        run_text = re.sub(r'(?m)^watchdog (\d+)$', lambda m_: 'watchdog %d' % min(int(m_.group(1)), 20000), text, count=1)
    with open(sp, 'w') as f:
        f.write(run_text)
    evp = os.path.join(wd, 'ev.jsonl')
    env = san_env(flavour, wd, leaks)
    cmd = [player, sp, evp]
    if valgrind:
        cmd = ['valgrind', '--tool=' + valgrind, '-q', '--error-exitcode=0', '--log-file=%s/vg.log' % wd,
               '--num-callers=16'] + (['--undef-value-errors=yes', '--track-origins=no', '--leak-check=no'] if valgrind == 'memcheck' else []) + cmd
    t0 = time.time()
    r = Result()
    r.timed_out = False
    try:
        p = subprocess.run(cmd, env=env, capture_output=True, timeout=timeout, cwd=wd)
        r.rc = p.returncode
        r.stderr = p.stderr.decode('utf-8', 'replace')[-4000:]
    except subprocess.TimeoutExpired as e:
        r.rc = -9
        r.timed_out = True
        r.stderr = (e.stderr or b'').decode('utf-8', 'replace')[-4000:]
    r.wall = time.time() - t0
    r.events = []
    try:
        MAXLOG[0] = max(MAXLOG[0], os.path.getsize(evp))
    except OSError:
        pass
    try:
        big = os.path.getsize(evp) > (12 << 20)
        with open(evp, encoding='utf-8', errors='replace') as f:
            if big:
                # a run that ended at the event-log cap (endless activity): head and tail are enough for the verdict (hang) and the witness
                import collections
                head, tail = [], collections.deque(maxlen=4000)
                for i, line in enumerate(f):
                    (head if i < 40000 else tail).append(line)
                lines = head + list(tail)
            else:
                lines = f
            for line in lines:
                try:
                    r.events.append(json.loads(line))
                except Exception:
                    r.events.append({'e': 'unparsable', 'line': line[:200]})
    except FileNotFoundError:
        pass
    san = ''
    for fn in sorted(glob.glob(os.path.join(wd, 'san.*'))) + sorted(glob.glob(os.path.join(wd, 'vg.log'))):
        try:
            san += open(fn, errors='replace').read()
        except Exception:
            pass
    r.san = san
    r.scenario = text
    r.flavour = flavour
    r.workdir = wd
    r.tag = tag
    if r.rc == 98 or r.timed_out:
        HANGS[0] += 1
    if not keep:
        shutil.rmtree(wd, ignore_errors=True)
    return r

def run_many(flavour, scenarios, workers=None, **kw):
    """scenarios: list of (tag, text). Returns list of Result in the same order."""
    workers = workers or int(os.environ.get('VERIF_JOBS', '16'))
    build.ensure('cov' if os.environ.get('VERIF_COVERAGE') else flavour)

    def one(ts):
        return run_scenario(flavour, ts[1], tag=ts[0], **kw)
    with ThreadPoolExecutor(workers) as ex:
        return list(ex.map(one, scenarios))

# ------------------------------------------------------------------ sanitizer report parsing
_FRAME = re.compile(r'#\d+ (?:0x[0-9a-f]+ in )?(\S+) (\S+?)(?::\d+)?(?::\d+)?(?: \([^()]*\))?\s*$', re.M)      # ASan and gcc-TSan frame formats

def repo_frame(block):
    """innermost frame of a report block that lies in /repo"""
    for m in _FRAME.finditer(block):
        fn, path = m.group(1), m.group(2)
        if '/repo/' in path or path.startswith(build.REPO):
            return fn
    return None

def first_frames(block, k=3):
    return [m.group(1) for m in _FRAME.finditer(block)][:k]

def asan_reports(san):
    """-> list of (class, site, text)"""
    out = []
    for m in re.finditer(r'==\d+==ERROR: (AddressSanitizer|LeakSanitizer): ([^\n]*)', san):
        start = m.start()
        nxt = san.find('==ERROR:', m.end())
        block = san[start: nxt if nxt > 0 else len(san)]
        tool, rest = m.group(1), m.group(2)
        if tool == 'LeakSanitizer':
            # one entry per leak stack
            for lm in re.finditer(r'(Direct|Indirect) leak of (\d+) byte\(s\) in (\d+) object\(s\) allocated from:\n((?:\s+#\d+.*\n)+)', block):
                site = repo_frame(lm.group(4)) or (first_frames(lm.group(4), 2) or ['?'])[-1]
                out.append(('leak', site, lm.group(0)[:1500]))
            continue
        cls = rest.split()[0] if rest else 'unknown'
        cls = cls.rstrip(':')
        if rest.startswith('attempting double-free'):
            cls = 'double-free'
        elif rest.startswith('attempting free'):
            cls = 'bad-free'
        if cls == 'SEGV':
            cls = 'SEGV'
        site = repo_frame(block) or (first_frames(block, 1) or ['?'])[0]
        out.append((cls, site, block[:3000]))
    for m in re.finditer(r'([^\s:]+):(\d+):(\d+): runtime error: ([^\n]*)\n((?:\s+#\d+.*\n)*)', san):
        what = m.group(4)
        kind = 'ub-' + re.sub(r'[^a-z]+', '-', re.sub(r"(0x[0-9a-f]+|-?\d+|'[^']*')", '', what.lower())).strip('-')[:40]
        site = repo_frame(m.group(5)) or os.path.basename(m.group(1))
        out.append((kind, site, m.group(0)[:2000]))
    return out

def tsan_reports(san):
    """-> list of (class, site-pair-string, text); only reports that touch /repo code"""
    out = []
    for block in re.split(r'(?m)^={18}\n', san):
        m = re.search(r'WARNING: ThreadSanitizer: ([^\(\n]*)', block)
        if not m:
            continue
        cls = m.group(1).strip().replace(' ', '-')
        # stacks: split on blank lines, take innermost /repo function of each access stack
        sites = []
        for st in re.split(r'\n\s*\n', block):
            if re.search(r'(Write|Read|Previous write|Previous read|Atomic|Previous atomic|Mutex .* acquired)', st.split('\n')[0] if st else ''):
                f = repo_frame(st)
                if f:
                    sites.append(f)
        if not sites:
            f = repo_frame(block)
            if not f:
                continue
            sites = [f]
        out.append((cls, '|'.join(sorted(set(sites))[:2]), block[:4000]))
    return out

LIFECYCLE_FLAGS = {'bidib_running', 'bidib_discard_rx', 'bidib_seq_num_enabled', 'bidib_lowlevel_debug_mode'}

def helgrind_reports(san):
    """-> list of (class, site-pair, text): 'Possible data race' blocks of valgrind --tool=helgrind in which BOTH access stacks pass through library
    code; the four volatile lifecycle flags (same list as tsan.supp) and the harness' own condition variables are not library state."""
    repo_files = {os.path.basename(f) for f in build.repo_sources()}
    out = []
    for b in re.split(r'==\d+== -{40,}\n', san):
        if 'Possible data race' not in b:
            continue
        sym = re.search(r'data symbol "(\w+)"', b)
        if sym and sym.group(1) in LIFECYCLE_FLAGS:
            continue
        parts = b.split('This conflicts with')

        def top_repo(p):
            for m in re.finditer(r'(?:at|by) 0x[0-9A-Fa-f]+: (\S+) \(([^:)]+):\d+\)', p):
                if m.group(2) in repo_files:
                    return m.group(1)
            return None
        a = top_repo(parts[0])
        c = top_repo(parts[1]) if len(parts) > 1 else None
        if not a or (len(parts) > 1 and not c):
            continue
        out.append(('helgrind-race', '|'.join(sorted({a, c or a})), re.sub(r'==\d+== ', '', b)[:4000]))
    return out

def outcome(r):
    """classifies how the process ended: 'ok', 'asan', 'crash', 'hang', 'selfdeadlock', 'harness'"""
    if r.timed_out:
        return 'timeout'
    if r.rc == 0:
        return 'ok' if r.ended() else 'harness'
    if r.rc == 98:
        return 'hang'
    if r.rc == 96:
        return 'selfdeadlock'
    if r.rc in (97, 1) and r.san:
        return 'san'
    if r.rc == 66:
        return 'tsan'
    if r.rc == 99 or r.rc < 0:
        return 'crash'
    if r.rc == 2:
        return 'harness'
    return 'san' if r.san else 'crash'
