"""Seeded generators of valid low-level traffic (used by C01, C03, C04, C05, C10)."""
from . import model, spec_lowlevel as S

HOT = [0xFE, 0xFD, 0x00, 0xFF, 0xDE, 0xDD, 0x20, 0x7F, 0x80]
BUF_LEN_ARG = {'name': 'nlen', 'value': 'vlen', 'str': 'size', 'data': 'size', 'pairs': 'n'}
EXCLUDE = {'bidib_send_msg_bm_mirror_position'}

def rbyte(rng, hot=0.5):
    return rng.choice(HOT) if rng.random() < hot else rng.randrange(256)

def fill_buffers(name, a, rng, hot=0.5):
    r = S.rows()[name]
    for an in r['args']:
        if not an.startswith('B:'):
            continue
        b = an[2:]
        n = a[BUF_LEN_ARG[b]]
        if name == 'bidib_send_bm_mirror_multiple':
            n //= 8
        if name == 'bidib_send_lc_configx_set':
            n *= 2
        buf = bytearray(rbyte(rng, hot) for _ in range(n))
        if name == 'bidib_send_accessory_para_set_macromap' and n > 0:
            buf[n - 1] = 0xFF
        if name == 'bidib_send_fw_update_op_data':
            buf = bytearray(x if x not in S.WS else 0x41 for x in buf)
        a[b] = bytes(buf)

R = range
DOMAIN = {
    ('bidib_send_sys_identify', 'st'): [0, 1], ('bidib_send_fw_update_op_setdest', 'range'): [0, 1],
    ('bidib_send_boost_on', 'uni'): [0, 1], ('bidib_send_boost_off', 'uni'): [0, 1],
    ('*', 'anum'): list(R(128)), ('bidib_send_accessory_set', 'aspect'): list(R(128)),
    ('bidib_send_accessory_para_set_opmode', 'op'): list(R(128)),
    ('bidib_send_accessory_para_set_startup', 'sb'): list(R(128)) + [254, 255],
    ('bidib_send_accessory_para_get', 'para'): [251, 252, 253, 254, 255],
    ('bidib_send_lc_macro_handle', 'op'): [0, 1, 252, 253, 254, 255],
    ('bidib_send_cs_set_state', 'state'): [0, 1, 2, 3, 4, 8, 9, 0x0D, 0xFF],
    ('bidib_send_cs_drive', 'fmt'): [0, 2, 3], ('bidib_send_cs_drive', 'active'): list(R(64)), ('bidib_send_cs_drive', 'f1'): list(R(32)),
    ('bidib_send_cs_pom', 'op'): [0, 1, 2, 3, 0x43, 0x47, 0x80, 0x81, 0x82, 0x83, 0x87, 0x8B, 0x8F],
    ('bidib_send_cs_bin_state', 'data'): [0, 1], ('bidib_send_cs_prog', 'op'): [0, 1, 2, 3, 4],
}

HINT = {
    'bidib_send_sys_clock': lambda rng: {'t0': rng.randrange(60), 't1': 0x80 + rng.randrange(24), 't2': 0x40 + rng.randrange(7), 't3': 0xC0 + rng.randrange(32)},
}

def random_call(rng, addr, names=None, hot=0.5, long_bias=0.2):
    """-> (name, addr, args, data) of a call the spec says must be accepted"""
    rows = S.rows()
    cand = names or [n for n in sorted(rows) if n not in EXCLUDE and rows[n]['data'] is not None]
    for _ in range(500):
        name = rng.choice(cand)
        r = rows[name]
        a = HINT[name](rng) if name in HINT else {}
        for an in r['args']:
            if an.startswith('B:') or an in a:
                continue
            if an in BUF_LEN_ARG.values():
                # the largest sizes the functions accept: 121 data bytes, i.e. a 128-byte message (length byte 127) at address depth 3
                mx = {'bidib_send_accessory_para_set_macromap': 16, 'bidib_send_lc_configx_set': 8, 'bidib_send_bm_mirror_multiple': 128,
                      'bidib_send_vendor_set': 59, 'bidib_send_vendor_get': 120, 'bidib_send_string_set': 118, 'bidib_send_fw_update_op_data': 120}.get(name, 32)
                if name == 'bidib_send_vendor_set' and an == 'vlen' and 'nlen' in a:
                    mx = 119 - a['nlen']
                if name == 'bidib_send_bm_mirror_multiple':
                    a[an] = 8 * rng.randrange(1, 17)
                elif rng.random() < long_bias:
                    a[an] = mx
                else:
                    a[an] = rng.randrange(1, mx + 1)
            elif (name, an) in DOMAIN:
                a[an] = rng.choice(DOMAIN[(name, an)])
            elif ('*', an) in DOMAIN:
                a[an] = rng.choice(DOMAIN[('*', an)])
            else:
                a[an] = rbyte(rng, hot)
        if name == 'bidib_send_bm_mirror_multiple':
            a['mnum'] = 8 * rng.randrange(32)
        if name == 'bidib_send_bm_get_range':
            a['start'] = 8 * rng.randrange(16)
            a['end'] = min(248, a['start'] + 8 * rng.randrange(1, 16))
        fill_buffers(name, a, rng, hot)
        ad = addr if r['has_addr'] else (0, 0, 0)
        st, data = S.expected(name, ad, a)
        if st == 'accept':
            return name, ad, a, data
    raise RuntimeError('generator could not find a valid call')

def zero_response_names():
    rows = S.rows()
    return [n for n in sorted(rows) if n not in EXCLUDE and rows[n]['data'] is not None and model.resp_size(model.C(rows[n]['type'])) == 0]

def expected_msg(name, ad, data, seq):
    return model.build_msg(ad, seq, model.C(S.rows()[name]['type']), data)
