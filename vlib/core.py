"""Check context: verdict bookkeeping (violated / held on what was observed / inconclusive),
known-findings matching by signature, replay artifacts, evidence files."""
import hashlib
import json
import os
import random
import re
import sys
import time

from . import build, runner

VERIF = build.VERIF
KNOWN_FILE = os.path.join(VERIF, 'KNOWN_FINDINGS.txt')
REPLAY_DIR = os.path.join(VERIF, 'replays')
EVIDENCE_DIR = os.path.join(VERIF, 'evidence')

def load_known():
    findings, fixed = {}, []
    if os.path.exists(KNOWN_FILE):
        for line in open(KNOWN_FILE):
            line = line.strip()
            if line.startswith('finding:'):
                m = re.match(r'finding:\s+property=(\S+)\s+sig=(\S+)\s*(.*)', line)
                if m:
                    findings[(m.group(1), m.group(2))] = m.group(3)
            elif line.startswith('fixed:'):
                fixed.append(line)
    return findings, fixed

def digest(obj):
    return hashlib.sha1(json.dumps(obj, sort_keys=True, default=str).encode()).hexdigest()[:12]

class Ctx:
    def __init__(self, pid, tier, seed):
        self.pid, self.tier, self.seed = pid, tier, seed
        self.t0 = time.time()
        self.rng = random.Random((seed * 1000003) ^ int(hashlib.sha1(pid.encode()).hexdigest()[:8], 16))
        self.known, self.fixed = load_known()
        self.viol = {}            # sig -> dict(detail, replay, count)
        self.known_hit = {}       # sig -> count
        self.inconclusive = []
        self.evaluations = 0
        self.nontrivial = set()
        self.samples = []
        self.cov = {}
        self.assumptions = []
        self.rule = ''
        self.level = 'exploration'

    @property
    def quick(self):
        return self.tier == 'quick'

    def n(self, quick, thorough):
        """case count for the tier, scalable with VERIF_SCALE for experiments"""
        v = quick if self.quick else thorough
        sc = float(os.environ.get('VERIF_SCALE', '1'))
        return max(1, int(v * sc))

    def sub_rng(self, *key):
        return random.Random(hashlib.sha1(repr((self.seed, self.pid) + key).encode()).hexdigest())

    def count(self, key, inc=1):
        self.cov[key] = self.cov.get(key, 0) + inc

    def add_set(self, key, item):
        s = self.cov.setdefault(key, set())
        s.add(item)

    def sample(self, obj, limit=4):
        if len(self.samples) < limit:
            self.samples.append(obj)

    def violation(self, cls, site, detail, scenario=None, flavour='asan', meta=None, report=None):
        """records one violation; returns True when it is new (not a listed known finding)"""
        site = re.sub(r'[^A-Za-z0-9_.:|+\-]', '_', str(site))[:80]
        sig = f'{self.pid}/{cls}/{site}'
        if (self.pid, sig) in self.known:
            self.known_hit[sig] = self.known_hit.get(sig, 0) + 1
            return False
        if sig in self.viol:
            self.viol[sig]['count'] += 1
            return True
        if getattr(self, 'dry', False):
            self.viol[sig] = {'detail': detail, 'replay': None, 'count': 1}
            return True
        if getattr(self, '_shrinkable', False) and scenario and os.environ.get('VERIF_NO_SHRINK') is None:
            try:
                small = self.shrink(flavour, scenario, sig)
                if small and small != scenario:
                    meta = dict(meta or {})
                    meta['shrunk_from_lines'] = scenario.count('\n')
                    scenario = small
            except Exception as e:                      # shrinking is a convenience: never let it change a verdict
                meta = dict(meta or {})
                meta['shrink_error'] = repr(e)
        os.makedirs(os.path.join(REPLAY_DIR, self.pid), exist_ok=True)
        path = os.path.join(REPLAY_DIR, self.pid, re.sub(r'[^A-Za-z0-9_.\-]', '_', sig.split('/', 1)[1])[:100] + f'-s{self.seed}.json')
        with open(path, 'w') as f:
            json.dump({'property': self.pid, 'sig': sig, 'flavour': flavour, 'seed': self.seed, 'tier': self.tier,
                       'detail': detail, 'meta': meta, 'scenario': scenario, 'report': (report or '')[:6000]}, f, indent=1)
        self.viol[sig] = {'detail': detail, 'replay': path, 'count': 1}
        return True

    def shrink(self, flavour, text, sig, budget=40):
        """bounded delta debugging over the steps of a scenario (header up to the first start and the final stop are kept, par blocks are
        atomic): the smallest variant found within `budget` re-runs that still produces a process-level failure with the same signature"""
        lines = text.rstrip('\n').split('\n')
        first = next((i for i, l in enumerate(lines) if l.startswith(('start ', 'start_serial '))), None)
        if first is None:
            return text
        head, rest = lines[:first + 1], lines[first + 1:]
        tail = []
        while rest and rest[-1] in ('stop',):
            tail.insert(0, rest.pop())
        units, i = [], 0
        while i < len(rest):
            if rest[i].startswith('par '):
                j = next((k for k in range(i, len(rest)) if rest[k].startswith('endpar')), len(rest) - 1)
                units.append(rest[i:j + 1])
                i = j + 1
            else:
                units.append([rest[i]])
                i += 1
        runs = [0]

        t_start = time.time()
        head_fast = [re.sub(r'^watchdog \d+$', 'watchdog 15000', l) for l in head]      # candidates that hang are not worth a full watchdog

        def fails(us):
            if runs[0] >= budget or time.time() - t_start > 90:
                return False
            runs[0] += 1
            t = '\n'.join(head_fast + [l for u in us for l in u] + tail) + '\n'
            r = runner.run_scenario(flavour, t, timeout=300, leaks=True)
            probe = Ctx(self.pid, self.tier, self.seed)
            probe.dry = True
            probe.known = {}
            probe.generic_failures(r)
            return sig in probe.viol
        n = 2
        while len(units) >= 2 and runs[0] < budget:
            size = max(1, len(units) // n)
            reduced = False
            for k in range(0, len(units), size):
                cand = units[:k] + units[k + size:]
                if cand and fails(cand):
                    units = cand
                    n = max(n - 1, 2)
                    reduced = True
                    break
            if not reduced:
                if size == 1:
                    break
                n = min(len(units), n * 2)
        return '\n'.join(head + [l for u in units for l in u] + tail) + '\n'

    def generic_failures(self, r, meta=None, allow_classes=()):
        self._shrinkable = True
        try:
            return self._generic_failures(r, meta, allow_classes)
        finally:
            self._shrinkable = False

    def _generic_failures(self, r, meta=None, allow_classes=()):
        """Turns process-level failures of a player run into violations: sanitizer reports, monitor
        violations, crashes, hangs. Returns number of problems seen. 'harness' outcomes are inconclusive."""
        n = 0
        oc = runner.outcome(r)
        if r.flavour == 'tsan':
            for cls, site, text in runner.tsan_reports(r.san):
                n += 1
                self.violation(cls, site, text.split('\n')[1][:200] if '\n' in text else cls, r.scenario, r.flavour, meta, text)
        else:
            for cls, site, text in runner.asan_reports(r.san + '\n' + (r.stderr or '')):
                if cls in allow_classes:
                    continue
                n += 1
                self.violation(cls, site, f'{cls} in {site}', r.scenario, r.flavour, meta, text)
        for v in r.viols():
            n += 1
            m = v.get('msg', '')
            site = m.split(' ')[0] if v.get('cls') in ('contract', 'container-lockset') else re.sub(r'thread \d+|t\d+', 't', m)[:60]
            if v.get('cls') in ('self-deadlock', 'unbalanced', 'thread-exit-holding', 'init-held-lock', 'unlock-not-held'):
                lk = re.findall(r'(bidib_\w+|trackstate_\w+)', m)
                site = '+'.join(lk[:3]) if lk else site
            if v.get('cls') == 'format-string':
                site = 'syslog'
            if v.get('cls') == 'join-not-live':
                lk = re.findall(r'last owner: (\w+)', m)
                site = lk[0] if lk else site
            self.violation(v.get('cls', 'monitor'), site, m, r.scenario, r.flavour, meta)
        qt = [e for e in r.events if e.get('e') == 'quiesce_timeout']
        if qt and n == 0 and oc == 'ok':
            if any(e.get('receiver_blocked') for e in qt):
                # the receiver thread sat on a lock for the whole guard time (30 s): it is blocked, not slow
                dump = next((e for e in r.events if e.get('e') == 'lockdump' and e.get('why') == 'receiver-blocked'), {})
                rec = next((t for t in dump.get('threads', []) if t.get('role') == 1), {})
                n += 1
                self.violation('receiver-blocked', rec.get('wait') or 'lock', f'the receiver thread waited for {rec.get("wait")} for more than the quiescence guard; threads: {dump.get("threads")}',
                               r.scenario, r.flavour, meta)
            else:
                # the logical quiescence condition was not reached within its generous wall-clock guard although nobody is blocked: the machine
                # is overloaded; whatever the oracles would read from this run is not evidence
                self.inconclusive.append('quiescence not reached within the wall-clock guard (overloaded machine?)')
                n += 1
        if oc == 'hang':
            cyc = any(h.get('cycle') for h in r.by('hang'))
            if not any(v.get('cls') == 'deadlock' for v in r.viols()):
                last = [e for e in r.events if e.get('e') in ('call',)]
                where = last[-1].get('f', '?') if last else '?'
                n += 1
                if cyc:
                    self.violation('deadlock', where, 'wait-for cycle at watchdog', r.scenario, r.flavour, meta)
                else:
                    why = next((h.get('why') for h in r.by('hang') if h.get('why')), None)
                    self.violation('hang', where, (why or f'wall-clock watchdog expired in {where}') + ' (no lock cycle)', r.scenario, r.flavour, meta)
        elif oc == 'crash' and n == 0:
            last = [e for e in r.events if e.get('e') in ('call',)]
            where = last[-1].get('f', '?') if last else '?'
            n += 1
            self.violation('crash', where, f'process died rc={r.rc} in/after {where}: {r.stderr[-300:]}', r.scenario, r.flavour, meta)
        elif oc in ('harness', 'timeout'):
            if not n:
                self.inconclusive.append(f'{oc}: rc={r.rc} tag={r.tag} stderr={r.stderr[-200:]!r}')
        elif oc in ('san', 'tsan') and n == 0:
            n += 1
            self.violation('sanitizer-exit', 'unparsed', f'sanitizer exit code {r.rc} but no parsable report: {r.san[:300]} {r.stderr[-300:]}', r.scenario, r.flavour, meta, r.san)
        return n

    def finish(self, min_eval=1, min_nontrivial=2):
        wall = time.time() - self.t0
        cov = {}
        for k, v in self.cov.items():
            cov[k] = (len(v) if isinstance(v, (set, frozenset)) else v)
        coverage = {'evaluations': self.evaluations, 'distinct_nontrivial': len(self.nontrivial), 'rule': self.rule,
                    'samples': self.samples or [{'note': 'no sample recorded'}]}
        coverage.update(cov)
        coverage['max_event_log_bytes'] = runner.MAXLOG[0]
        coverage['known_findings_hit'] = dict(self.known_hit)
        coverage['violation_signatures'] = sorted(self.viol)
        coverage['inconclusive'] = self.inconclusive[:10]
        ev = {'property_id': self.pid, 'tier': self.tier, 'seed': self.seed, 'level': self.level, 'coverage': coverage,
              'assumptions': self.assumptions, 'wall_s': round(wall, 2), 'violations': len(self.viol)}
        # the committed evidence describes the registered command on /repo itself; experiments (scratch tree, scaled or partial runs) write elsewhere
        experiment = bool(os.environ.get('VERIF_REPO')) or os.environ.get('VERIF_SCALE', '1') not in ('1', '1.0') or bool(os.environ.get('VERIF_ONLY')) or bool(os.environ.get('VERIF_COVERAGE'))
        evdir = EVIDENCE_DIR if not experiment else os.path.join(VERIF, '.run', 'evidence-experiments')
        os.makedirs(evdir, exist_ok=True)
        with open(os.path.join(evdir, self.pid + '.json'), 'w') as f:
            json.dump(ev, f, indent=1, default=str)
        for sig, cnt in sorted(self.known_hit.items()):
            print(f'KNOWN-FINDING: property={self.pid} sig={sig} x{cnt} {self.known.get((self.pid, sig), "")}')
        print(f'[{self.pid}] tier={self.tier} seed={self.seed} evaluations={self.evaluations} '
              f'distinct_nontrivial={len(self.nontrivial)} wall={wall:.1f}s ' +
              ' '.join(f'{k}={v}' for k, v in sorted(cov.items()) if isinstance(v, (int, float))) + f' maxlog={runner.MAXLOG[0]}')
        if self.viol:
            for sig, v in sorted(self.viol.items()):
                print(f'VIOLATION property={self.pid} replay={v["replay"]}  sig={sig} x{v["count"]} :: {str(v["detail"])[:300]}')
            return 1
        if self.inconclusive and len(self.inconclusive) > max(2, self.evaluations // 50):
            print(f'INCONCLUSIVE property={self.pid}: {len(self.inconclusive)} runs without a verdict, e.g. {self.inconclusive[0]}')
            return 2
        if self.evaluations < min_eval or len(self.nontrivial) < min_nontrivial:
            print(f'INCONCLUSIVE property={self.pid}: observed too little (evaluations={self.evaluations}, nontrivial={len(self.nontrivial)})')
            return 2
        return 0
