"""Builds the scenario player from /repo's *current working tree* for one instrumentation flavour.
Every /repo/src/*/*.c is compiled straight into the harness executable (no .so), which is what makes
ld --wrap and -finstrument-functions possible without touching the library sources."""
import fcntl
import glob
import hashlib
import os
import shutil
import subprocess
import sys
import time
from concurrent.futures import ThreadPoolExecutor

VERIF = os.path.dirname(os.path.dirname(os.path.abspath(__file__)))
REPO = os.environ.get('VERIF_REPO', '/repo')
BUILD_ROOT = os.path.join(VERIF, '.build')
GUARD = 'LIBBIDIB_VERIF'

WRAPS = ['pthread_mutex_lock', 'pthread_mutex_trylock', 'pthread_mutex_unlock', 'pthread_mutex_init',
         'pthread_rwlock_rdlock', 'pthread_rwlock_wrlock', 'pthread_rwlock_unlock', 'pthread_rwlock_init',
         'pthread_create', 'pthread_join', 'usleep', 'time', 'syslog', 'openlog', 'closelog',
         'g_queue_push_tail', 'g_queue_pop_head', 'g_queue_peek_head', 'g_queue_is_empty', 'g_queue_get_length', 'g_queue_find_custom',
         'g_hash_table_lookup', 'g_hash_table_insert', 'g_array_append_vals', 'g_array_remove_range', 'g_queue_free', 'g_hash_table_destroy',
         'g_array_free', 'g_queue_new', 'open', 'read', 'write', 'close', 'clock_gettime']

FLAVOURS = {
    'asan': {'cc': 'gcc', 'lib': ['-O1', '-g', '-fno-omit-frame-pointer', '-fsanitize=address,undefined',
                                  '-fsanitize=bounds-strict', '-fno-sanitize-recover=all', '-finstrument-functions'],
             'link': ['-fsanitize=address,undefined']},
    'tsan': {'cc': 'gcc', 'lib': ['-O1', '-g', '-fno-omit-frame-pointer', '-fsanitize=thread', '-finstrument-functions'],
             'link': ['-fsanitize=thread']},
    'mon': {'cc': 'gcc', 'lib': ['-O1', '-g', '-fno-omit-frame-pointer', '-finstrument-functions'], 'link': []},
    'plain': {'cc': 'gcc', 'lib': ['-O0', '-g', '-fno-omit-frame-pointer', '-finstrument-functions'], 'link': []},
    'cov': {'cc': 'gcc', 'lib': ['-O0', '-g', '--coverage', '-finstrument-functions'], 'link': ['--coverage']},
}

def _pkg(*args):
    return subprocess.run(['pkg-config', *args, 'glib-2.0'], capture_output=True, text=True, check=True).stdout.split()

def repo_sources():
    return sorted(glob.glob(os.path.join(REPO, 'src', '*', '*.c')))

def _digest(flavour):
    h = hashlib.sha256()
    h.update(flavour.encode())
    h.update(repr(FLAVOURS[flavour]).encode())
    h.update(repr(WRAPS).encode())
    files = repo_sources() + sorted(glob.glob(os.path.join(REPO, 'src', '*', '*.h'))) + \
        sorted(glob.glob(os.path.join(REPO, 'include', '**', '*.h'), recursive=True)) + \
        sorted(glob.glob(os.path.join(VERIF, 'harness', '*.[ch]'))) + [os.path.join(VERIF, 'tools', 'gen_tables.py')]
    for f in files:
        h.update(f.encode())
        with open(f, 'rb') as fh:
            h.update(fh.read())
    return h.hexdigest()[:16]

def _run(cmd, cwd=None):
    p = subprocess.run(cmd, cwd=cwd, capture_output=True, text=True)
    if p.returncode != 0:
        sys.stderr.write('BUILD FAILED: ' + ' '.join(cmd) + '\n' + p.stdout + p.stderr + '\n')
        raise SystemExit(2)
    return p

def ensure(flavour):
    """returns (player_path, build_dir); builds if the digest of the current tree is new"""
    os.makedirs(BUILD_ROOT, exist_ok=True)
    dg = _digest(flavour)
    bdir = os.path.join(BUILD_ROOT, f'{flavour}-{dg}')
    player = os.path.join(bdir, 'player')
    if os.path.exists(os.path.join(bdir, '.ok')):
        return player, bdir
    lock = open(os.path.join(BUILD_ROOT, f'.lock-{flavour}'), 'w')
    fcntl.flock(lock, fcntl.LOCK_EX)
    try:
        if os.path.exists(os.path.join(bdir, '.ok')):
            return player, bdir
        t0 = time.time()
        tmp = bdir + '.tmp%d' % os.getpid()
        shutil.rmtree(tmp, ignore_errors=True)
        os.makedirs(tmp)
        fl = FLAVOURS[flavour]
        cc = fl['cc']
        cflags = _pkg('--cflags')
        libs = _pkg('--libs')
        _run([sys.executable, os.path.join(VERIF, 'tools', 'gen_tables.py'), REPO, tmp])
        inc = ['-I' + os.path.join(REPO, 'include'), '-I' + os.path.join(REPO, 'include', 'definitions'),
               '-I' + os.path.join(VERIF, 'harness')]
        jobs = []
        objs = []
        for src in repo_sources():
            o = os.path.join(tmp, 'lib_' + os.path.basename(os.path.dirname(src)) + '_' + os.path.basename(src)[:-2] + '.o')
            objs.append(o)
            jobs.append([cc, '-std=gnu11', '-w', '-D' + GUARD + '=1', *fl['lib'], *cflags, '-c', src, '-o', o])
        hflags = [f for f in fl['lib'] if f != '-finstrument-functions']
        for src in sorted(glob.glob(os.path.join(VERIF, 'harness', '*.c'))) + [os.path.join(tmp, 'gen_dispatch.c'), os.path.join(tmp, 'gen_contracts.c')]:
            o = os.path.join(tmp, 'hx_' + os.path.basename(src)[:-2] + '.o')
            objs.append(o)
            jobs.append([cc, '-std=gnu11', '-Wall', '-Wno-unused-function', '-Wno-unused-variable', *hflags, *cflags, *inc, '-c', src, '-o', o])
        with ThreadPoolExecutor(16) as ex:
            list(ex.map(_run, jobs))
        wrap = ['-Wl,--wrap=' + w for w in WRAPS]
        _run([cc, '-o', os.path.join(tmp, 'player'), *objs, *fl['link'], *wrap, *libs, '-lyaml', '-lpthread', '-lm', '-rdynamic'])
        open(os.path.join(tmp, '.ok'), 'w').write('%s built in %.1fs\n' % (flavour, time.time() - t0))
        if os.path.exists(bdir):
            shutil.rmtree(bdir, ignore_errors=True)
        os.rename(tmp, bdir)
        # prune older builds of the same flavour (disk is limited)
        olds = sorted((d for d in glob.glob(os.path.join(BUILD_ROOT, flavour + '-*')) if d != bdir and '.tmp' not in d), key=os.path.getmtime)
        for d in olds[:-1] if len(olds) > 1 else []:
            shutil.rmtree(d, ignore_errors=True)
        return player, bdir
    finally:
        fcntl.flock(lock, fcntl.LOCK_UN)
        lock.close()

if __name__ == '__main__':
    for fl in (sys.argv[1:] or ['asan']):
        t = time.time()
        p, d = ensure(fl)
        print(fl, p, '%.1fs' % (time.time() - t))
