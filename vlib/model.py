"""Reference model shared by the oracles: framing codec, message codes, request/answer table,
message building/parsing. Nothing here calls library code."""
import os
import re

REPO = os.environ.get('VERIF_REPO', '/repo')

# ------------------------------------------------------------------ CRC / framing
def crc8(data, crc=0):
    """CRC-8 Dallas/Maxim, poly x^8+x^5+x^4+1 reflected (0x8C), init 0 - computed bitwise."""
    for b in data:
        crc ^= b
        for _ in range(8):
            crc = ((crc >> 1) ^ 0x8C) if (crc & 1) else (crc >> 1)
    return crc

def escape(data):
    out = bytearray()
    for b in data:
        if b in (0xFE, 0xFD):
            out += bytes((0xFD, b ^ 0x20))
        else:
            out.append(b)
    return bytes(out)

def frame(payload):
    """payload (concatenated messages) -> FE esc(payload) esc(crc) FE"""
    return b'\xfe' + escape(payload) + escape(bytes([crc8(payload)])) + b'\xfe'

class FrameError(Exception):
    pass

def strict_deframe(stream):
    """Strict parser for what the library writes: the byte string must be exactly a sequence of
    FE <escaped payload+crc> FE packets. Returns list of dict(payload, escapes, crc_escaped, raw_len).
    Raises FrameError with position on any deviation."""
    pkts = []
    i, n = 0, len(stream)
    while i < n:
        if stream[i] != 0xFE:
            raise FrameError(f'byte 0x{stream[i]:02x} at {i} outside a packet (expected start delimiter)')
        j = i + 1
        body = bytearray()
        esc = 0
        last_esc = False
        while True:
            if j >= n:
                raise FrameError(f'packet starting at {i} has no end delimiter')
            b = stream[j]
            if b == 0xFE:
                break
            if b == 0xFD:
                if j + 1 >= n:
                    raise FrameError(f'escape at end of stream at {j}')
                c = stream[j + 1]
                if c not in (0xDE, 0xDD):
                    raise FrameError(f'escape followed by 0x{c:02x} at {j}')
                body.append(c ^ 0x20)
                esc += 1
                last_esc = True
                j += 2
            else:
                body.append(b)
                last_esc = False
                j += 1
        if len(body) < 2:
            raise FrameError(f'empty packet at {i}')
        if crc8(body) != 0:
            raise FrameError(f'bad CRC in packet at {i}: {bytes(body).hex()}')
        pkts.append({'payload': bytes(body[:-1]), 'escapes': esc, 'crc_escaped': last_esc, 'crc': body[-1], 'raw_len': j + 1 - i})
        i = j + 1
    return pkts

def lenient_deframe(stream):
    """Receiver-side reference decoder (what a BiDiB receiver is specified to do): FE delimits, FD escapes,
    packets with CRC!=0 are dropped, empty packets ignored. Returns list of (payload|None-if-bad, start, end)."""
    out = []
    body = bytearray()
    esc = False
    started = False
    start = 0
    for k, b in enumerate(stream):
        if not started:
            if b == 0xFE:
                started = True
                body = bytearray()
                esc = False
                start = k
            continue
        if b == 0xFE:
            if len(body) > 0:
                good = crc8(body) == 0
                out.append((bytes(body[:-1]) if good else None, start, k))
                body = bytearray()
                start = k
            esc = False         # a delimiter always ends a pending escape, also when nothing else stood between two delimiters
            continue
        if b == 0xFD:
            esc = True
            continue
        if esc:
            b ^= 0x20
            esc = False
        body.append(b)
    return out

def split_messages(payload):
    """payload -> list of message byte strings; raises FrameError when it is not a whole number of messages"""
    msgs = []
    i = 0
    while i < len(payload):
        ln = payload[i]
        if ln < 3 or i + ln + 1 > len(payload):
            raise FrameError(f'message length byte {ln} at offset {i} does not fit payload of {len(payload)}')
        msgs.append(bytes(payload[i:i + ln + 1]))
        i += ln + 1
    return msgs

def build_msg(addr, seq, mtype, data=b''):
    """addr: tuple of up to 3 non-zero bytes (trailing zeros ignored)"""
    # canonical: address stack up to first zero
    st = []
    for x in addr:
        if x == 0:
            break
        st.append(x)
    body = bytes(st) + b'\x00' + bytes([seq, mtype]) + bytes(data)
    return bytes([len(body)]) + body

def parse_msg(m):
    """-> dict(addr=(a,b,c), seq, type, data) ; raises FrameError"""
    ln = m[0]
    if ln + 1 != len(m):
        raise FrameError('length byte mismatch')
    k = 1
    st = []
    while k < len(m) and m[k] != 0:
        st.append(m[k])
        k += 1
    if len(st) > 3:
        raise FrameError('address stack deeper than 3')
    if k + 2 > len(m) - 1:
        raise FrameError('header does not fit')
    addr = tuple(st + [0] * (3 - len(st)))
    return {'addr': addr, 'seq': m[k + 1], 'type': m[k + 2], 'data': bytes(m[k + 3:])}

# ------------------------------------------------------------------ message codes (normative header)
_codes = None

def codes():
    global _codes
    if _codes is None:
        src = open(os.path.join(REPO, 'include', 'definitions', 'bidib_messages.h'), encoding='latin-1').read()
        vals = {}
        for m in re.finditer(r'#define\s+(MSG_\w+|BIDIB_\w+)\s+\(?\s*(\w+)\s*(?:\+\s*(\w+))?\s*\)?', src):
            name, a, b = m.group(1), m.group(2), m.group(3)
            def val(x):
                if x is None:
                    return 0
                if re.fullmatch(r'0[xX][0-9a-fA-F]+|\d+', x):
                    return int(x, 0)
                return vals.get(x)
            va, vb = val(a), val(b)
            if va is None or vb is None:
                continue
            vals.setdefault(name, va + vb)
        _codes = vals
    return _codes

def C(name):
    return codes()[name]

def name_of(mtype, uplink=None):
    best = None
    for k, v in codes().items():
        if k.startswith('MSG_') and v == mtype and not re.fullmatch(r'MSG_[DU][A-Z]+', k):
            if best is None or len(k) < len(best):
                best = k
    return best or f'0x{mtype:02x}'

# ------------------------------------------------------------------ request -> (worst-case answer size, answer types)
# Own table, written from the BiDiB message descriptions (size = length of the largest answer incl. header bytes
# as budgeted by the node flow control of BiDiB: 48 byte downstream response window).
def _rt():
    c = C
    t = {
        'MSG_SYS_GET_MAGIC': (6, ['MSG_SYS_MAGIC']), 'MSG_SYS_GET_P_VERSION': (6, ['MSG_SYS_P_VERSION']),
        'MSG_SYS_ENABLE': (0, []), 'MSG_SYS_DISABLE': (0, []), 'MSG_SYS_GET_UNIQUE_ID': (11, ['MSG_SYS_UNIQUE_ID']),
        'MSG_SYS_GET_SW_VERSION': (7, ['MSG_SYS_SW_VERSION']), 'MSG_SYS_PING': (5, ['MSG_SYS_PONG']),
        'MSG_SYS_IDENTIFY': (5, ['MSG_SYS_IDENTIFY_STATE']), 'MSG_SYS_RESET': (0, []),
        'MSG_GET_PKT_CAPACITY': (5, ['MSG_PKT_CAPACITY']), 'MSG_NODETAB_GETALL': (5, ['MSG_NODETAB_COUNT']),
        'MSG_NODETAB_GETNEXT': (13, ['MSG_NODETAB', 'MSG_NODE_NA', 'MSG_NODETAB_COUNT']), 'MSG_NODE_CHANGED_ACK': (0, []),
        'MSG_SYS_GET_ERROR': (10, ['MSG_SYS_ERROR']), 'MSG_FW_UPDATE_OP': (6, ['MSG_FW_UPDATE_STAT']),
        'MSG_FEATURE_GETALL': (5, ['MSG_FEATURE_COUNT']), 'MSG_FEATURE_GETNEXT': (6, ['MSG_FEATURE', 'MSG_FEATURE_NA']),
        'MSG_FEATURE_GET': (6, ['MSG_FEATURE', 'MSG_FEATURE_NA']), 'MSG_FEATURE_SET': (6, ['MSG_FEATURE', 'MSG_FEATURE_NA']),
        'MSG_VENDOR_ENABLE': (5, ['MSG_VENDOR_ACK']), 'MSG_VENDOR_DISABLE': (5, ['MSG_VENDOR_ACK']),
        'MSG_VENDOR_SET': (32, ['MSG_VENDOR']), 'MSG_VENDOR_GET': (32, ['MSG_VENDOR']), 'MSG_SYS_CLOCK': (0, []),
        'MSG_STRING_GET': (30, ['MSG_STRING']), 'MSG_STRING_SET': (30, ['MSG_STRING']),
        'MSG_BM_GET_RANGE': (21, ['MSG_BM_MULTIPLE', 'MSG_BM_OCC', 'MSG_BM_FREE']), 'MSG_BM_MIRROR_MULTIPLE': (0, []),
        'MSG_BM_MIRROR_OCC': (0, []), 'MSG_BM_MIRROR_FREE': (0, []), 'MSG_BM_ADDR_GET_RANGE': (0, []),
        'MSG_BM_GET_CONFIDENCE': (7, ['MSG_BM_CONFIDENCE']), 'MSG_BM_MIRROR_POSITION': (0, []),
        'MSG_BOOST_OFF': (5, ['MSG_BOOST_STAT']), 'MSG_BOOST_ON': (5, ['MSG_BOOST_STAT']), 'MSG_BOOST_QUERY': (5, ['MSG_BOOST_STAT']),
        'MSG_ACCESSORY_SET': (9, ['MSG_ACCESSORY_STATE']), 'MSG_ACCESSORY_GET': (9, ['MSG_ACCESSORY_STATE']),
        'MSG_ACCESSORY_PARA_SET': (9, ['MSG_ACCESSORY_PARA']), 'MSG_ACCESSORY_PARA_GET': (9, ['MSG_ACCESSORY_PARA']),
        'MSG_LC_PORT_QUERY_ALL': (0, []), 'MSG_LC_OUTPUT': (7, ['MSG_LC_STAT', 'MSG_LC_NA']),
        'MSG_LC_CONFIG_SET': (10, ['MSG_LC_CONFIG', 'MSG_LC_NA']), 'MSG_LC_CONFIG_GET': (10, ['MSG_LC_CONFIG', 'MSG_LC_NA']),
        'MSG_LC_KEY_QUERY': (6, ['MSG_LC_KEY', 'MSG_LC_NA']), 'MSG_LC_PORT_QUERY': (7, ['MSG_LC_STAT', 'MSG_LC_NA']),
        'MSG_LC_CONFIGX_GET_ALL': (0, []), 'MSG_LC_CONFIGX_SET': (40, ['MSG_LC_CONFIGX']), 'MSG_LC_CONFIGX_GET': (40, ['MSG_LC_CONFIGX']),
        'MSG_LC_MACRO_HANDLE': (6, ['MSG_LC_MACRO_STATE']), 'MSG_LC_MACRO_SET': (10, ['MSG_LC_MACRO']), 'MSG_LC_MACRO_GET': (10, ['MSG_LC_MACRO']),
        'MSG_LC_MACRO_PARA_SET': (10, ['MSG_LC_MACRO_PARA']), 'MSG_LC_MACRO_PARA_GET': (10, ['MSG_LC_MACRO_PARA']),
        'MSG_CS_ALLOCATE': (0, []), 'MSG_CS_SET_STATE': (5, ['MSG_CS_STATE']), 'MSG_CS_DRIVE': (7, ['MSG_CS_DRIVE_ACK']),
        'MSG_CS_ACCESSORY': (7, ['MSG_CS_ACCESSORY_ACK']), 'MSG_CS_BIN_STATE': (7, ['MSG_CS_DRIVE_ACK']),
        'MSG_CS_POM': (10, ['MSG_CS_POM_ACK']), 'MSG_CS_RCPLUS': (11, ['MSG_CS_RCPLUS_ACK']), 'MSG_CS_PROG': (5, ['MSG_CS_PROG_STATE']),
    }
    return {c(k): (v[0], [c(x) for x in v[1]]) for k, v in t.items()}

_resp = None

def resp_table():
    global _resp
    if _resp is None:
        _resp = _rt()
    return _resp

def resp_size(mtype):
    return resp_table().get(mtype, (0, []))[0]

def resp_types(mtype):
    return resp_table().get(mtype, (0, []))[1]

BUDGET = 48
EXPIRY_S = 2
QUEUE_BOUND = 128

def addr_str(a):
    return '.'.join(str(x) for x in a)

def seq_next(s):
    return 1 if s == 255 else s + 1
