"""Directed preemption sweeps. The lock wrappers of the harness count the scheduling points (lock acquire attempts, lock releases and -
in 'fn' mode - library function entries) of one target thread; 'pause <target> <k>' blocks the target at its k-th point until the other
side has run to completion (or is itself blocked on a lock the target holds). A sweep over k therefore executes, for every point of
thread A's call, the schedule "B runs as a whole exactly there" - the classical atomicity-violation schedules - deterministically
instead of waiting for the perturbation to produce them."""
from collections import Counter


def add_two_thread_case(sc, idx, a_lines, b_lines, k, fn=False, after=('flush', 'quiesce')):
    """thread 0 runs a_lines and is paused at its k-th scheduling point; thread 1 waits for that, runs b_lines, releases it."""
    sc.add(f'mark c{idx}', f'pause w0 {k}' + (' fn' if fn else ''), 'par 2')
    for l in a_lines:
        sc.add('t 0 ' + l)
    sc.add('t 1 waitpaused')
    for l in b_lines:
        sc.add('t 1 ' + l)
    sc.add('t 1 release', 'endpar', *after)


def add_receiver_case(sc, idx, feed_lines, main_lines, k, fn=False, after=('release', 'quiesce')):
    """the receiver thread is paused at the k-th scheduling point after the feed; the main thread then runs main_lines."""
    sc.add(f'mark c{idx}', f'pause recv {k}' + (' fn' if fn else ''))
    sc.add(*feed_lines)
    sc.add('waitpaused')
    sc.add(*main_lines)
    sc.add(*after)


def pause_stats(ctx, events, prefix='sweep'):
    """evidence: how many cases actually paused, at which distinct sites (call, kind, lock/function, locks held)"""
    n = 0
    for e in events:
        if e.get('e') == 'paused':
            n += 1
            ctx.add_set(prefix + '_pause_sites', (e.get('call'), e.get('kind'), e.get('at'), e.get('held')))
        elif e.get('e') == 'resumed':
            ctx.count(prefix + '_resumed_' + e.get('why', '?'))
        elif e.get('e') == 'waitpaused' and not e.get('paused'):
            ctx.count(prefix + '_point_beyond_call')
    ctx.count(prefix + '_cases_paused', n)
    return n
