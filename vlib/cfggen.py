"""Generator of valid configurations in the documented layout (example/config + the two test configs) together with
their abstract description; writer of the three YAML files; single-fault mutations for C14."""
import copy
import os

SPEED_STEPS = [14, 28, 126]

_NUM = [None]       # random.Random of the file being written when the configuration asks for mixed number notations

def _begin(cfg, file_index):
    import random
    _NUM[0] = random.Random(cfg['numstyle'] * 3 + file_index) if cfg.get('numstyle') is not None else None

def hx(v, w=2):
    """a byte value in the notation of the documented examples (0xNN) or - configurations with 'numstyle' - in any notation a person would
    write and the unchanged parser reads as the same number: lower-case hex digits, plain decimal, decimal with leading zeros"""
    r = _NUM[0]
    if r is None or w != 2:
        return '0x%0*X' % (w, v)
    k = r.random()
    return '0x%02X' % v if k < 0.35 else '0x%02x' % v if k < 0.5 else str(v) if k < 0.7 else '%03d' % v if k < 0.9 else '%04d' % v

def dec(v):
    r = _NUM[0]
    if r is None:
        return str(v)
    k = r.random()
    return str(v) if k < 0.5 else '%02d' % v if k < 0.7 else '%03d' % v if k < 0.9 else '0x%02X' % v

class Ids:
    """globally unique ids; with odd=rng some ids carry characters that are harmless in YAML plain scalars but not in a printf format"""
    def __init__(self, odd=None):
        self.n = 0
        self.odd = odd

    def new(self, pfx):
        self.n += 1
        if self.odd is not None and self.odd.random() < 0.15:
            return f'{pfx}{self.n}' + self.odd.choice(['_%s', '%s%s%s%s', '_%n', '%d%x%s', '_100%', '%%', '%5$s', '_%.99999d'])
        return f'{pfx}{self.n}'

def free_dcc(cfg, want):
    """a DCC address (h, l) not used by any train or DCC accessory of cfg, `want` if it is free"""
    taken = {tuple(t['addr']) for t in cfg['trains']} | {tuple(a['addr']) for b in cfg['boards'] for k in ('points_dcc', 'signals_dcc') for a in (b.get(k) or [])}
    ad = tuple(want)
    while ad in taken:
        ad = (ad[0], (ad[1] - 7) % 256 or 1)
    return ad

def gen_config(rng, nboards=None, rich=True, with_initial=True, max_trains=4, wide_dcc=False, odd_ids=False):
    """-> abstract config dict. Everything unambiguous: globally unique ids, per-board unique numbers/ports/addresses/CVs,
    globally unique DCC addresses."""
    ids = Ids(rng if odd_ids else None)
    nb = rng.randrange(0, 5) if nboards is None else nboards
    boards = []
    uids = set()
    dcc = set()

    def new_dcc():
        while True:
            # (addrh, addrl): the usual 14-bit range, or - wide_dcc - any 16-bit value the documented 0x<hhll> format can express
            a = (rng.randrange(0, 0x40) if not wide_dcc or rng.random() < 0.4 else rng.choice([0x40, 0x45, 0x7F, 0x80, 0xBF, 0xC0, 0xFF, rng.randrange(0x40, 0x100)]), rng.randrange(1, 256))
            if wide_dcc and dcc and rng.random() < 0.3:
                o = rng.choice(sorted(dcc))
                a = (o[0] ^ rng.choice([0x40, 0x80, 0xC0]), o[1])          # differs from a configured address in the top two bits only: still distinct
            if a not in dcc:
                dcc.add(a)
                return a
    for b in range(nb):
        while True:
            cls = rng.choice([0x00, 0x02, 0x10, 0x12, 0x80, 0x90, 0x92, 0xDA, 0x40, 0x05])
            uid = bytes([cls, rng.randrange(256), 0x0D, rng.randrange(256), rng.randrange(256), rng.randrange(256), rng.randrange(256)])
            if uid not in uids:
                uids.add(uid)
                break
        bd = {'id': ids.new('board'), 'uid': uid, 'features': None, 'points_board': None, 'points_dcc': None, 'signals_board': None,
              'signals_dcc': None, 'peripherals': None, 'segments': None, 'reversers': None}
        if rng.random() < 0.7:
            nums = rng.sample(range(256), rng.randrange(0, 5))
            bd['features'] = [(n, rng.randrange(256)) for n in nums]
            if rng.random() < 0.4 and 3 not in nums:
                bd['features'].insert(rng.randrange(len(bd['features']) + 1), (3, rng.choice([0, 1, 5])))
        numbers = rng.sample(range(128), 12)
        ports = rng.sample(range(0x10000), 6)

        def aspects(n, full=False):
            # accessory aspects are 7-bit values; a port state (peripherals: servo position, dimmer ...) is a whole byte
            vals = rng.sample(range(256 if full else 128), n)
            return [(ids.new('asp'), v) for v in vals]

        def board_acc(kind):
            lst = []
            for _ in range(rng.randrange(0, 4)):
                a = {'id': ids.new(kind), 'number': numbers.pop(), 'aspects': aspects(rng.randrange(1, 5)), 'initial': None}
                if with_initial and rng.random() < 0.5:
                    a['initial'] = rng.choice(a['aspects'])[0]
                lst.append(a)
            return lst

        def dcc_acc(kind):
            lst = []
            for _ in range(rng.randrange(0, 3)):
                nports = rng.randrange(1, 4)
                pset = rng.sample(range(32), nports)
                nasp = rng.randrange(1, min(4, 2 ** nports) + 1)
                vecs = rng.sample(range(2 ** nports), nasp)
                asp = [(ids.new('dasp'), [(pset[i], (v >> i) & 1) for i in range(nports)]) for v in vecs]
                a = {'id': ids.new(kind), 'addr': new_dcc(), 'extended': rng.randrange(2), 'aspects': asp, 'initial': None}
                if with_initial and rng.random() < 0.5:
                    a['initial'] = rng.choice(asp)[0]
                lst.append(a)
            return lst
        if rich or rng.random() < 0.5:
            if rng.random() < 0.7:
                bd['points_board'] = board_acc('point')
            if rng.random() < 0.6:
                bd['points_dcc'] = dcc_acc('dpoint')
            if rng.random() < 0.7:
                bd['signals_board'] = board_acc('signal')
            if rng.random() < 0.5:
                bd['signals_dcc'] = dcc_acc('dsignal')
            if rng.random() < 0.6:
                lst = []
                for _ in range(rng.randrange(0, 4)):
                    p = ports.pop()
                    a = {'id': ids.new('periph'), 'number': rng.randrange(256), 'port': (p >> 8, p & 0xFF), 'aspects': aspects(rng.randrange(1, 4), full=True), 'initial': None}
                    if with_initial and rng.random() < 0.5:
                        a['initial'] = rng.choice(a['aspects'])[0]
                    lst.append(a)
                # numbers of peripherals must be unique on a board
                seen = set()
                for a in lst:
                    while a['number'] in seen:
                        a['number'] = (a['number'] + 1) % 256
                    seen.add(a['number'])
                bd['peripherals'] = lst
            if rng.random() < 0.8:
                addrs = rng.sample(range(0, 200), rng.randrange(0, 9))
                bd['segments'] = [{'id': ids.new('seg'), 'address': a, 'length': '%d.%02dcm' % (rng.randrange(200), rng.randrange(100))} for a in addrs]
            if rng.random() < 0.4:
                cvs = rng.sample(range(1, 1000), rng.randrange(0, 3))
                bd['reversers'] = [{'id': ids.new('rev'), 'cv': str(c)} for c in cvs]
        boards.append(bd)
    trains = []
    for t in range(rng.randrange(0, max_trains + 1)):
        tr = {'id': ids.new('train'), 'addr': new_dcc(), 'steps': rng.choice(SPEED_STEPS), 'calibration': None, 'peripherals': None}
        if rng.random() < 0.5:
            tr['calibration'] = sorted(rng.randrange(127) for _ in range(9))
        # documented layout: every example that has a calibration list also has a peripherals section
        if rng.random() < 0.7 or tr['calibration'] is not None:
            bits = rng.sample([b for b in range(32) if b not in (5, 6, 7)], rng.randrange(0, 7))
            tr['peripherals'] = []
            for bt in bits:
                p = {'id': ids.new('fn'), 'bit': bt, 'initial': None}
                if with_initial and rng.random() < 0.4:
                    p['initial'] = rng.randrange(2)
                tr['peripherals'].append(p)
        trains.append(tr)
    # a third of the configurations write their numbers in mixed notations (see hx)
    return {'boards': boards, 'trains': trains, 'numstyle': rng.randrange(1 << 30) if rng.random() < 0.3 else None}

# ------------------------------------------------------------------ YAML writer (documented layout, documented key order)
def board_yaml(cfg):
    _begin(cfg, 0)
    out = ['# BiDiB board configuration', 'boards:']
    if not cfg['boards']:
        out[-1] = 'boards: []'
    for b in cfg['boards']:
        out.append(f'  - id: {b["id"]}')
        out.append(f'    unique-id: 0x{b["uid"].hex().upper()}')
        if b['features'] is not None:
            if not b['features']:
                out.append('    features: []')
            else:
                out.append('    features:')
                for n, v in b['features']:
                    out.append(f'      - number: {hx(n)}')
                    out.append(f'        value: {hx(v)}')
    return '\n'.join(out) + '\n'

def _aspects_yaml(asp, ind):
    out = []
    for aid, v in asp:
        out.append(f'{ind}- id: {aid}')
        out.append(f'{ind}  value: {hx(v)}')
    return out

def track_yaml(cfg, only_boards=None):
    _begin(cfg, 1)
    out = ['# Track configuration', 'boards:']
    bl = [b for b in cfg['boards'] if only_boards is None or b['id'] in only_boards]
    if not bl:
        out[-1] = 'boards: []'
    for b in bl:
        out.append(f'  - id: {b["id"]}')
        for key, kind in (('points_board', 'points-board'), ('points_dcc', 'points-dcc'), ('signals_board', 'signals-board'), ('signals_dcc', 'signals-dcc')):
            lst = b.get(key)
            if lst is None:
                continue
            if not lst:
                out.append(f'    {kind}: []')
                continue
            out.append(f'    {kind}:')
            for a in lst:
                out.append(f'      - id: {a["id"]}')
                if 'number' in a:
                    out.append(f'        number: {hx(a["number"])}')
                    out.append('        aspects:')
                    out += _aspects_yaml(a['aspects'], '          ')
                else:
                    out.append(f'        dcc-address: 0x{a["addr"][0]:02X}{a["addr"][1]:02X}')
                    out.append(f'        extended: {hx(a["extended"])}')
                    out.append('        aspects:')
                    for aid, pv in a['aspects']:
                        out.append(f'          - id: {aid}')
                        out.append('            ports:')
                        for p, v in pv:
                            out.append(f'              - port: {hx(p)}')
                            out.append(f'                value: {hx(v)}')
                if a.get('initial') is not None:
                    out.append(f'        initial: {a["initial"]}')
        lst = b.get('peripherals')
        if lst is not None:
            if not lst:
                out.append('    peripherals: []')
            else:
                out.append('    peripherals:')
                for a in lst:
                    out.append(f'      - id: {a["id"]}')
                    out.append(f'        number: {hx(a["number"])}')
                    out.append(f'        port: 0x{a["port"][0]:02X}{a["port"][1]:02X}')
                    out.append('        aspects:')
                    out += _aspects_yaml(a['aspects'], '          ')
                    if a.get('initial') is not None:
                        out.append(f'        initial: {a["initial"]}')
        lst = b.get('segments')
        if lst is not None:
            if not lst:
                out.append('    segments: []')
            else:
                out.append('    segments:')
                for s in lst:
                    out.append(f'      - id: {s["id"]}')
                    out.append(f'        address: {hx(s["address"])}')
                    out.append(f'        length: {s["length"]}')
        lst = b.get('reversers')
        if lst is not None:
            if not lst:
                out.append('    reversers: []')
            else:
                out.append('    reversers:')
                for r in lst:
                    out.append(f'      - id: {r["id"]}')
                    out.append(f'        cv: {r["cv"]}')
    return '\n'.join(out) + '\n'

def train_yaml(cfg):
    _begin(cfg, 2)
    out = ['# Train configuration', 'trains:']
    if not cfg['trains']:
        out[-1] = 'trains: []'
    for t in cfg['trains']:
        out.append(f'  - id: {t["id"]}')
        out.append(f'    dcc-address: 0x{t["addr"][0]:02X}{t["addr"][1]:02X}')
        out.append(f'    dcc-speed-steps: {dec(t["steps"])}')
        if t.get('calibration') is not None:
            if isinstance(t['calibration'], tuple):          # fault injection: ('scalar', text) - a calibration that is no list at all
                out.append(f'    calibration: {t["calibration"][1]}'.rstrip())
            else:
                out.append('    calibration:')
                for c in t['calibration']:
                    out.append(f'      - {dec(c)}')
        if t.get('peripherals') is not None:
            if not t['peripherals']:
                out.append('    peripherals: []')
            else:
                out.append('    peripherals:')
                for p in t['peripherals']:
                    out.append(f'      - id: {p["id"]}')
                    out.append(f'        bit: {dec(p["bit"])}')
                    if p.get('initial') is not None:
                        out.append(f'        initial: {p["initial"]}')
    return '\n'.join(out) + '\n'

REGISTRY = {}
FILES = ('bidib_board_config.yml', 'bidib_track_config.yml', 'bidib_train_config.yml')

def write_config(cfg, d, texts=None):
    """registers the three config texts under the relative directory name d; scenarios that mention d get 'cfgfile' lines
    prepended (vlib/scen.py), so that every scenario - and every replay - carries its own configuration files"""
    d = os.path.basename(d.rstrip('/'))
    REGISTRY[d] = tuple(texts or (board_yaml(cfg), track_yaml(cfg), train_yaml(cfg)))
    return d

def cfgfile_lines(d):
    out = []
    for name, text in zip(FILES, REGISTRY[d]):
        if text is None:
            continue        # file deliberately missing
        out.append(f'cfgfile {d}/{name} ' + (text.encode('utf-8', 'surrogateescape').hex() if isinstance(text, str) else bytes(text).hex() or '-'))
    return out

def is_track_output(b):
    return bool(b['uid'][0] & 0x10)

def is_booster(b):
    return bool(b['uid'][0] & 0x02)

def is_interface(b):
    return bool(b['uid'][0] & 0x80)

def secack(b):
    return any(n == 3 and v > 0 for (n, v) in (b['features'] or []))

def assign_tree(rng, cfg, absent_prob=0.2, unknown=1, depth3=True, unknown_hubs=0):
    """-> list of (addr, uid) for the simulated bus: node 0 is the interface (a configured interface board or an unknown one);
    configured boards are placed beneath interfaces up to three levels; some are absent; some unknown nodes are added."""
    boards = list(cfg['boards'])
    rng.shuffle(boards)
    nodes = []
    ifaces = [b for b in boards if is_interface(b)]
    root = ifaces[0] if ifaces and rng.random() < 0.7 else None
    root_uid = root['uid'] if root else bytes([0x80, 0x00, 0x0D, 0x99, 0x00, 0x00, 0x01])
    nodes.append(((0, 0, 0), root_uid))
    placed = {root['id']} if root else set()
    parents = [(0, 0, 0)]
    used = {(0, 0, 0)}
    # interfaces (hubs) that are on the bus but not in the configuration: the boards beneath them are configured boards present in the tree
    for h in range(unknown_hubs):
        p = rng.choice(parents)
        d = 0 if p == (0, 0, 0) else 1 if p[1] == 0 else 2
        if d >= 2:
            continue
        a = list(p)
        a[d] = rng.randrange(200, 250)
        a = tuple(a)
        if a in used:
            continue
        used.add(a)
        nodes.append((a, bytes([0x80, 0x01, 0x0D, 0xAB, 0xCD, h, 0x55])))
        parents.append(a)
        if rng.random() < 0.7:
            parents.append(a)         # weight: boards should really end up beneath it
    for b in boards:
        if b['id'] in placed:
            continue
        if rng.random() < absent_prob:
            continue
        for _ in range(20):
            p = rng.choice(parents)
            d = 0 if p == (0, 0, 0) else 1 if p[1] == 0 else 2
            if d >= 3 or (d == 2 and not depth3):
                continue
            a = list(p)
            a[d] = rng.randrange(1, 128)
            a = tuple(a)
            if a in used:
                continue
            used.add(a)
            nodes.append((a, b['uid']))
            placed.add(b['id'])
            if is_interface(b) and d < 2:
                parents.append(a)
            break
    for u in range(unknown):
        for _ in range(20):
            p = rng.choice(parents)
            d = 0 if p == (0, 0, 0) else 1 if p[1] == 0 else 2
            if d >= 3:
                continue
            a = list(p)
            a[d] = rng.randrange(128, 200)
            a = tuple(a)
            if a in used:
                continue
            used.add(a)
            uid = bytes([0x00, 0x01, 0x0D, 0xEE, 0xEE, u, 0x77])
            # near misses: an unknown node whose unique id differs from a configured board that is NOT on the bus in a single byte (a class
            # bit, the class extension, the vendor or one product byte) is still not that board
            absent = [b for b in boards if b['id'] not in placed]
            if absent and rng.random() < 0.5:
                base = bytearray(rng.choice(absent)['uid'])
                i = rng.choice([0, 0, 1, 2, 3, 4, 5, 6])
                base[i] ^= rng.choice([0x40, 0x20, 0x08, 0x04, 0x01]) if i == 0 else rng.randrange(1, 256)
                if bytes(base) not in {bytes(b['uid']) for b in boards} | {u_ for _a, u_ in nodes}:
                    uid = bytes(base)
            nodes.append((a, uid))
            break
    return nodes

def bus_lines(cfg, nodes):
    feats = {b['uid']: b['features'] or [] for b in cfg['boards']}
    ls = ['bus mode answer']
    for a, uid in nodes:
        f = ','.join(f'{n}={v}' for n, v in feats.get(uid, []))
        ls.append(f'bus node {a[0]}.{a[1]}.{a[2]} {uid.hex()}' + (f' {f}' if f else ''))
    return ls
