"""Specification table of the public low-level send functions (C18, also used by C01/C05/C03).
Written from the public header documentation (ranges) and the message layouts in the normative
bidib_messages.h - not from the implementation.

Each row: name -> dict(
   type   : message type macro name,
   args   : argument names in the order of the player's flattened tokens (after the 3 address bytes, before action id);
            'B:<name>' marks a byte-buffer argument,
   data   : f(a) -> expected data bytes for a *valid* call,
   reject : f(a) -> True when the documentation says the call must submit nothing,
   either : f(a) -> True when the documents leave the value's legality open (both outcomes accepted; if a
            message is submitted it must still carry the specified encoding),
   has_addr: False for the broadcast system messages without node address parameter.
"""
from .model import C

def _b(*xs):
    return bytes(x & 0xFF for x in xs)

WS = (0x20, 0x09, 0x0D, 0x0A)

def _rows():
    R = {}

    def row(name, mtype, args, data, reject=None, either=None, has_addr=True):
        R[name] = dict(type=mtype, args=args, data=data, reject=reject or (lambda a: False),
                       either=either or (lambda a: False), has_addr=has_addr)
    nodata = lambda a: b''
    # ---- system
    row('bidib_send_sys_get_magic', 'MSG_SYS_GET_MAGIC', [], nodata)
    row('bidib_send_sys_get_p_version', 'MSG_SYS_GET_P_VERSION', [], nodata)
    row('bidib_send_sys_enable', 'MSG_SYS_ENABLE', [], nodata, has_addr=False)
    row('bidib_send_sys_disable', 'MSG_SYS_DISABLE', [], nodata, has_addr=False)
    row('bidib_send_sys_get_unique_id', 'MSG_SYS_GET_UNIQUE_ID', [], nodata)
    row('bidib_send_sys_get_sw_version', 'MSG_SYS_GET_SW_VERSION', [], nodata)
    row('bidib_send_sys_ping', 'MSG_SYS_PING', ['ping'], lambda a: _b(a['ping']))
    row('bidib_send_sys_identify', 'MSG_SYS_IDENTIFY', ['st'], lambda a: _b(a['st']), reject=lambda a: a['st'] > 1)
    row('bidib_send_sys_get_error', 'MSG_SYS_GET_ERROR', [], nodata)
    row('bidib_send_nodetab_getall', 'MSG_NODETAB_GETALL', [], nodata)
    row('bidib_send_nodetab_getnext', 'MSG_NODETAB_GETNEXT', [], nodata)
    row('bidib_send_get_pkt_capacity', 'MSG_GET_PKT_CAPACITY', [], nodata)
    row('bidib_send_node_changed_ack', 'MSG_NODE_CHANGED_ACK', ['num'], lambda a: _b(a['num']))
    row('bidib_send_sys_clock', 'MSG_SYS_CLOCK', ['t0', 't1', 't2', 't3'], lambda a: _b(a['t0'], a['t1'], a['t2'], a['t3']),
        reject=lambda a: a['t0'] > 59 or not (0x80 <= a['t1'] <= 0x80 + 23) or not (0x40 <= a['t2'] <= 0x46) or not (0xC0 <= a['t3'] <= 0xDF))
    # ---- feature / user config
    row('bidib_send_feature_getall', 'MSG_FEATURE_GETALL', [], nodata)
    row('bidib_send_feature_getnext', 'MSG_FEATURE_GETNEXT', [], nodata)
    row('bidib_send_feature_get', 'MSG_FEATURE_GET', ['num'], lambda a: _b(a['num']))
    row('bidib_send_feature_set', 'MSG_FEATURE_SET', ['num', 'val'], lambda a: _b(a['num'], a['val']))
    row('bidib_send_vendor_enable', 'MSG_VENDOR_ENABLE', ['u0', 'u1', 'u2', 'u3', 'u4', 'u5', 'u6'],
        lambda a: _b(*[a['u%d' % i] for i in range(7)]))
    row('bidib_send_vendor_disable', 'MSG_VENDOR_DISABLE', [], nodata)
    row('bidib_send_vendor_set', 'MSG_VENDOR_SET', ['nlen', 'B:name', 'vlen', 'B:value'],
        lambda a: _b(a['nlen']) + a['name'][:a['nlen']] + _b(a['vlen']) + a['value'][:a['vlen']])
    row('bidib_send_vendor_get', 'MSG_VENDOR_GET', ['nlen', 'B:name'], lambda a: _b(a['nlen']) + a['name'][:a['nlen']])
    row('bidib_send_string_set', 'MSG_STRING_SET', ['ns', 'id', 'size', 'B:str'],
        lambda a: _b(a['ns'], a['id'], a['size']) + a['str'][:a['size']])
    row('bidib_send_string_get', 'MSG_STRING_GET', ['ns', 'id'], lambda a: _b(a['ns'], a['id']))
    # ---- firmware
    row('bidib_send_fw_update_op_enter', 'MSG_FW_UPDATE_OP', ['u0', 'u1', 'u2', 'u3', 'u4', 'u5', 'u6'],
        lambda a: _b(0x00, *[a['u%d' % i] for i in range(7)]))
    row('bidib_send_fw_update_op_exit', 'MSG_FW_UPDATE_OP', [], lambda a: _b(0x01))
    row('bidib_send_fw_update_op_setdest', 'MSG_FW_UPDATE_OP', ['range'], lambda a: _b(0x02, a['range']), reject=lambda a: a['range'] > 1)
    row('bidib_send_fw_update_op_data', 'MSG_FW_UPDATE_OP', ['size', 'B:data'],
        # "'White'-Characters" of the hex line are not transmitted (header documentation)
        lambda a: _b(0x03) + bytes(x for x in a['data'][:a['size']] if x not in WS),
        # a line that only fits after its white space is dropped may be refused on its raw size
        either=lambda a: 1 + a['size'] + 6 > 127)
    row('bidib_send_fw_update_op_done', 'MSG_FW_UPDATE_OP', [], lambda a: _b(0x04))
    # ---- occupancy
    row('bidib_send_bm_get_range', 'MSG_BM_GET_RANGE', ['start', 'end'], lambda a: _b(a['start'], a['end']),
        reject=lambda a: a['start'] % 8 != 0 or a['end'] % 8 != 0)
    row('bidib_send_bm_mirror_multiple', 'MSG_BM_MIRROR_MULTIPLE', ['mnum', 'size', 'B:data'],
        lambda a: _b(a['mnum'], a['size']) + a['data'][:a['size'] // 8],
        reject=lambda a: a['mnum'] % 8 != 0 or a['size'] < 8 or a['size'] > 128 or a['size'] % 8 != 0)
    row('bidib_send_bm_mirror_occ', 'MSG_BM_MIRROR_OCC', ['mnum'], lambda a: _b(a['mnum']))
    row('bidib_send_bm_mirror_free', 'MSG_BM_MIRROR_FREE', ['mnum'], lambda a: _b(a['mnum']))
    row('bidib_send_bm_addr_get_range', 'MSG_BM_ADDR_GET_RANGE', ['start', 'end'], lambda a: _b(a['start'], a['end']),
        either=lambda a: a['start'] > a['end'])
    row('bidib_send_bm_get_confidence', 'MSG_BM_GET_CONFIDENCE', [], nodata)
    # bidib_messages.h: MSG_BM_MIRROR_POSITION = addr_l, addr_h, type, location_id_l, location_id_h; the public function has no
    # address parameters, so its specified encoding cannot be produced: see KNOWN_FINDINGS (C18/C19).
    row('bidib_send_msg_bm_mirror_position', 'MSG_BM_MIRROR_POSITION', ['type', 'll', 'lh'], None)
    # ---- booster
    row('bidib_send_boost_on', 'MSG_BOOST_ON', ['uni'], lambda a: _b(a['uni']), reject=lambda a: a['uni'] > 1)
    row('bidib_send_boost_off', 'MSG_BOOST_OFF', ['uni'], lambda a: _b(a['uni']), reject=lambda a: a['uni'] > 1)
    row('bidib_send_boost_query', 'MSG_BOOST_QUERY', [], nodata)
    # ---- accessory
    row('bidib_send_accessory_set', 'MSG_ACCESSORY_SET', ['anum', 'aspect'], lambda a: _b(a['anum'], a['aspect']),
        reject=lambda a: a['anum'] > 127 or a['aspect'] > 127)
    row('bidib_send_accessory_get', 'MSG_ACCESSORY_GET', ['anum'], lambda a: _b(a['anum']), reject=lambda a: a['anum'] > 127)
    row('bidib_send_accessory_para_set_opmode', 'MSG_ACCESSORY_PARA_SET', ['anum', 'op'], lambda a: _b(a['anum'], 251, a['op']),
        reject=lambda a: a['anum'] > 127, either=lambda a: a['op'] > 127)
    row('bidib_send_accessory_para_set_startup', 'MSG_ACCESSORY_PARA_SET', ['anum', 'sb'], lambda a: _b(a['anum'], 252, a['sb']),
        reject=lambda a: a['anum'] > 127, either=lambda a: 127 < a['sb'] < 254)
    row('bidib_send_accessory_para_set_macromap', 'MSG_ACCESSORY_PARA_SET', ['size', 'B:data'],
        lambda a: _b(a['anum'], 253) + a['data'][:a['size']], )
    R['bidib_send_accessory_para_set_macromap']['args'] = ['anum', 'size', 'B:data']
    R['bidib_send_accessory_para_set_macromap']['reject'] = lambda a: a['anum'] > 127 or a['size'] > 16 or a['size'] == 0 or a['data'][a['size'] - 1] != 0xFF
    row('bidib_send_accessory_para_set_switch_time', 'MSG_ACCESSORY_PARA_SET', ['anum', 'time'], lambda a: _b(a['anum'], 254, a['time']),
        reject=lambda a: a['anum'] > 127)
    row('bidib_send_accessory_para_get', 'MSG_ACCESSORY_PARA_GET', ['anum', 'para'], lambda a: _b(a['anum'], a['para']),
        reject=lambda a: a['anum'] > 127, either=lambda a: a['para'] < 251)
    # ---- port config
    row('bidib_send_lc_output', 'MSG_LC_OUTPUT', ['p0', 'p1', 'stat'], lambda a: _b(a['p0'], a['p1'], a['stat']))
    row('bidib_send_lc_port_query', 'MSG_LC_PORT_QUERY', ['p0', 'p1'], lambda a: _b(a['p0'], a['p1']))
    row('bidib_send_lc_port_query_all', 'MSG_LC_PORT_QUERY_ALL', ['s0', 's1', 'a0', 'a1', 'e0', 'e1'],
        lambda a: _b(a['s0'], a['s1'], a['a0'], a['a1'], a['e0'], a['e1']))
    row('bidib_send_lc_configx_set', 'MSG_LC_CONFIGX_SET', ['p0', 'p1', 'n', 'B:pairs'],
        lambda a: _b(a['p0'], a['p1']) + a['pairs'][:2 * a['n']], reject=lambda a: a['n'] < 1 or a['n'] > 8)
    row('bidib_send_lc_configx_get', 'MSG_LC_CONFIGX_GET', ['p0', 'p1'], lambda a: _b(a['p0'], a['p1']))
    row('bidib_send_lc_configx_get_all', 'MSG_LC_CONFIGX_GET_ALL', ['p0', 'p1', 'a0', 'a1', 'e0', 'e1'],
        lambda a: _b(a['p0'], a['p1'], a['a0'], a['a1'], a['e0'], a['e1']))
    row('bidib_send_lc_macro_handle', 'MSG_LC_MACRO_HANDLE', ['idx', 'op'], lambda a: _b(a['idx'], a['op']), either=lambda a: 1 < a['op'] < 252)
    row('bidib_send_lc_macro_set', 'MSG_LC_MACRO_SET', ['d0', 'd1', 'd2', 'd3', 'd4', 'd5'], lambda a: _b(*[a['d%d' % i] for i in range(6)]))
    row('bidib_send_lc_macro_get', 'MSG_LC_MACRO_GET', ['idx', 'pt'], lambda a: _b(a['idx'], a['pt']))
    row('bidib_send_lc_macro_para_set', 'MSG_LC_MACRO_PARA_SET', ['d0', 'd1', 'd2', 'd3', 'd4', 'd5'], lambda a: _b(*[a['d%d' % i] for i in range(6)]))
    row('bidib_send_lc_macro_para_get', 'MSG_LC_MACRO_PARA_GET', ['idx', 'par'], lambda a: _b(a['idx'], a['par']))
    # ---- track / command station
    row('bidib_send_cs_allocate', 'MSG_CS_ALLOCATE', [], lambda a: _b(0))
    row('bidib_send_cs_set_state', 'MSG_CS_SET_STATE', ['state'], lambda a: _b(a['state']),
        either=lambda a: a['state'] not in (0, 1, 2, 3, 4, 8, 9, 0x0D, 0xFF))
    row('bidib_send_cs_drive', 'MSG_CS_DRIVE', ['al', 'ah', 'atype', 'fmt', 'active', 'speed', 'f1', 'f2', 'f3', 'f4'],
        lambda a: _b(a['al'], a['ah'], a['fmt'], a['active'], a['speed'], a['f1'], a['f2'], a['f3'], a['f4']),
        either=lambda a: a['fmt'] == 1 or a['fmt'] > 3 or a['active'] > 63 or a['f1'] > 31)
    row('bidib_send_cs_accessory', 'MSG_CS_ACCESSORY', ['al', 'ah', 'atype', 'data', 'time'],
        lambda a: _b(a['al'], a['ah'], a['data'], a['time']))
    row('bidib_send_cs_pom', 'MSG_CS_POM', ['al', 'ah', 'atype', 'xl', 'xh', 'mid', 'op', 'cl', 'ch', 'cx', 'd0', 'd1', 'd2', 'd3'],
        lambda a: _b(a['al'], a['ah'], a['xl'], a['xh'], a['mid'], a['op'], a['cl'], a['ch'], a['cx'], a['d0'], a['d1'], a['d2'], a['d3']),
        either=lambda a: a['op'] not in (0, 1, 2, 3, 0x43, 0x47, 0x80, 0x81, 0x82, 0x83, 0x87, 0x8B, 0x8F))
    row('bidib_send_cs_bin_state', 'MSG_CS_BIN_STATE', ['al', 'ah', 'atype', 'nl', 'nh', 'data'],
        lambda a: _b(a['al'], a['ah'], a['nl'], a['nh'], a['data']), either=lambda a: a['data'] > 1)
    row('bidib_send_cs_prog', 'MSG_CS_PROG', ['op', 'cl', 'ch', 'data'], lambda a: _b(a['op'], a['cl'], a['ch'], a['data']),
        either=lambda a: a['op'] > 4)
    row('bidib_send_cs_rcplus_get_id', 'MSG_CS_RCPLUS', [], lambda a: _b(2))
    row('bidib_send_cs_rcplus_set_id', 'MSG_CS_RCPLUS', ['m0', 'm1', 'm2', 'm3', 'mid', 'sid'],
        lambda a: _b(3, a['m0'], a['m1'], a['m2'], a['m3'], a['mid'], a['sid']))
    row('bidib_send_cs_rcplus_ping', 'MSG_CS_RCPLUS', ['iv'], lambda a: _b(1, a['iv']))
    row('bidib_send_cs_rcplus_ping_once_p0', 'MSG_CS_RCPLUS', [], lambda a: _b(4))
    row('bidib_send_cs_rcplus_ping_once_p1', 'MSG_CS_RCPLUS', [], lambda a: _b(5))
    row('bidib_send_cs_rcplus_bind', 'MSG_CS_RCPLUS', ['m0', 'm1', 'm2', 'm3', 'mid', 'nl', 'nh'],
        lambda a: _b(0, a['m0'], a['m1'], a['m2'], a['m3'], a['mid'], a['nl'], a['nh']))
    row('bidib_send_cs_rcplus_find_p0', 'MSG_CS_RCPLUS', ['m0', 'm1', 'm2', 'm3', 'mid'], lambda a: _b(6, a['m0'], a['m1'], a['m2'], a['m3'], a['mid']))
    row('bidib_send_cs_rcplus_find_p1', 'MSG_CS_RCPLUS', ['m0', 'm1', 'm2', 'm3', 'mid'], lambda a: _b(7, a['m0'], a['m1'], a['m2'], a['m3'], a['mid']))
    return R

_R = None

def rows():
    global _R
    if _R is None:
        _R = _rows()
    return _R

def tokens(name, addr, a, action_id=0):
    """scenario tokens for a call of `name` with named args a"""
    from .scen import h
    r = rows()[name]
    toks = []
    if r['has_addr']:
        toks += [str(addr[0]), str(addr[1]), str(addr[2])]
    for an in r['args']:
        if an.startswith('B:'):
            toks.append(h(a[an[2:]]))
        else:
            toks.append(str(a[an]))
    toks.append(str(action_id))
    return toks

def depth(addr):
    return 0 if addr[0] == 0 else 1 if addr[1] == 0 else 2 if addr[2] == 0 else 3

def expected(name, addr, a):
    """-> ('reject'|'accept'|'either', data bytes or None)"""
    r = rows()[name]
    aa = dict(a)
    aa['_depth'] = depth(addr) if r['has_addr'] else 0
    if r['data'] is None:
        return 'unspecified', None
    if r['reject'](aa):
        return 'reject', None
    d = r['data'](aa)
    # protocol maximum: the length byte (data + seq + type + address stack incl. terminator) must not exceed 127.
    # A function may be conservative and refuse what would only fit at a shallower address depth (worst case depth 3),
    # but it must accept everything that fits at depth 3 and must refuse what does not fit at the actual depth.
    if len(d) + 3 + aa['_depth'] > 127:
        return 'reject', None
    if len(d) + 6 > 127 or r['either'](aa):
        return 'either', d
    return 'accept', d
