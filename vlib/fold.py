"""Folds a player event log into the reference state model and compares snapshots (shared by C07/C08/C09/C15/C17/C19/C20)."""
from . import model, statemodel
from .model import C

def packets_of(events):
    """pkt id -> list of parsed messages (scripted 'up' steps and replies of the simulated bus)"""
    pk = {}
    for e in events:
        if e.get('e') == 'up':
            try:
                pk[e['pkt']] = [model.parse_msg(m) for m in model.split_messages(bytes.fromhex(e['payload']))]
            except model.FrameError:
                pk[e['pkt']] = []
        elif e.get('e') == 'reply':
            try:
                pk[e['pkt']] = [model.parse_msg(bytes.fromhex(e['msg']))]
            except model.FrameError:
                pk[e['pkt']] = []
    return pk

def session_start_index(events, start_ordinal=-1):
    """index of the event from which a session's state counts: the last MSG_SYS_RESET on the wire before the given start returned
    (normal mode resets all tracked state there), or the start call itself in debug mode"""
    rets = [i for i, e in enumerate(events) if e.get('e') == 'ret' and e.get('f') == 'bidib_start_pointer']
    if not rets:
        return 0, None
    ret_i = rets[start_ordinal]
    calls = [i for i, e in enumerate(events[:ret_i]) if e.get('e') == 'call' and e.get('f') == 'bidib_start_pointer']
    begin = calls[-1] if calls else 0
    rs = [i for i in range(begin, ret_i) if events[i].get('e') == 'txm' and events[i]['type'] == C('MSG_SYS_RESET')]
    return (rs[-1] if rs else begin), ret_i

def fold(m, events, begin=0, hooks=None, on_snap=None, stop_at=None, reset_restores_initial=False):
    """applies events[begin:] to model m. hooks: dict mark-name -> callable(model). on_snap(model, snap_event) is called at every
    snap event (the model at that point is what the getters must report)."""
    pk = packets_of(events)
    import copy
    initial = copy.deepcopy(m.st) if reset_restores_initial else None
    for i in range(begin, len(events)):
        e = events[i]
        k = e.get('e')
        if stop_at is not None and i >= stop_at:
            break
        if k == 'txm' and initial is not None and i > begin and e['type'] == C('MSG_SYS_RESET'):
            # bidib_send_sys_reset in mid-session: every tracked value is back at its initial state (the node tree is the same - callers use
            # this only for histories without node notices), what the bus answers afterwards is folded as usual
            m.st = copy.deepcopy(initial)
            continue
        if k == 'txm':
            m.on_wire(tuple(e['addr']), e['type'], bytes.fromhex(e['data']))
        elif k == 'rxc':
            for pm in pk.get(e['pkt'], []):
                m.on_uplink(pm['addr'], pm['type'], pm['data'])
        elif k == 'ret' and e.get('f') == 'bidib_start_pointer' and e.get('r') == 0:
            # startup commanded the configured initial aspects of DCC accessories on connected boards (high-level encoding)
            for b in m.cfg['boards']:
                if m.connected(b['id']):
                    for kind in ('points_dcc', 'signals_dcc'):
                        for a in b.get(kind) or []:
                            if a.get('initial') is not None:
                                m.set_dcc_state_id(a['id'], a['initial'])
        elif k == 'mark' and hooks and e.get('m') in hooks:
            hooks[e['m']](m)
        elif k == 'snap' and on_snap:
            on_snap(m, e)
    return m
