"""Runs many small cases per player process ("batch") and re-runs the tail of a batch when one case
kills the process, so that every case gets a verdict and a crashing case gets its own replay."""
import os
from concurrent.futures import ThreadPoolExecutor

from . import runner

def split_by_marks(events, prefix='c'):
    """-> dict case_index -> list of events between 'mark <prefix><k>' and the next mark"""
    out = {}
    cur = None
    for e in events:
        if e.get('e') == 'mark' and str(e.get('m', '')).startswith(prefix):
            try:
                cur = int(e['m'][len(prefix):])
            except ValueError:
                cur = None
                continue
            out[cur] = []
        elif cur is not None:
            out[cur].append(e)
    return out

def run_batches(flavour, cases, make_scenario, batch_size=200, workers=None, **kw):
    """cases: list of case objects. make_scenario(list_of_(index, case)) -> scenario text in which each case is
    preceded by 'mark c<index>' and the text ends with a normal shutdown.
    Yields (result, indices_covered, died_at_index_or_None) per process run."""
    workers = workers or int(os.environ.get('VERIF_JOBS', '16'))
    chunks = [list(range(i, min(i + batch_size, len(cases)))) for i in range(0, len(cases), batch_size)]

    def work(idx_list):
        outs = []
        todo = idx_list
        guard = 0
        while todo and guard < 50:
            guard += 1
            text = make_scenario([(i, cases[i]) for i in todo])
            r = runner.run_scenario(flavour, text, **kw)
            seen = split_by_marks(r.events)
            he = [e for e in r.events if e.get('e') == 'harness_error']
            if he:
                raise RuntimeError('harness error in batch: %r' % he[0])
            if r.ended() and runner.outcome(r) in ('ok',):
                outs.append((r, todo, None))
                break
            # died: last case whose mark was seen is the culprit
            done = [i for i in todo if i in seen]
            if not done:
                outs.append((r, todo, todo[0]))
                todo = todo[1:]
                continue
            culprit = done[-1]
            outs.append((r, done, culprit))
            todo = [i for i in todo if i not in seen]
        return outs
    with ThreadPoolExecutor(workers) as ex:
        for outs in ex.map(work, chunks):
            for o in outs:
                yield o
