"""Reference state fold (C07, C08, C09, C15, C16, C19, C20): tracked state as a function of the configuration, the node tree,
every delivered uplink message and every drive / DCC-accessory command on the wire. Written from bidib_messages.h field
comments, the public header documentation and DESIGN.md appendix A. A field value None means "not constrained"."""
import copy

from . import cfggen
from .model import C

ON_STATES = {0x80, 0x81, 0x82, 0x84}
OFF_STATES = {0x00, 0x03, 0x04, 0x05, 0x06}
ERR_STATES = {0x01, 0x02, 0x83}

def current_code(c):
    """-> dict pc"""
    if c == 0:
        return {'known': 1, 'overcurrent': 0, 'current': 0}
    if c < 16:
        return {'known': 1, 'overcurrent': 0, 'current': c}
    if c < 64:
        return {'known': 1, 'overcurrent': 0, 'current': (c - 12) * 4}
    if c < 128:
        return {'known': 1, 'overcurrent': 0, 'current': (c - 51) * 16}
    if c < 192:
        return {'known': 1, 'overcurrent': 0, 'current': (c - 108) * 64}
    if c < 251:
        return {'known': 1, 'overcurrent': 0, 'current': (c - 171) * 256}
    if c == 254:
        return {'known': 1, 'overcurrent': 1}
    return {'known': 0}

def s8(v):
    return v - 256 if v > 127 else v

def speed_from_dcc(b):
    s = b & 0x7F
    if s in (0, 1):
        return 0
    s -= 1
    return s if (b & 0x80) else -s

def speed_to_dcc(speed, forwards):
    a = abs(speed)
    return ((0x80 if forwards else 0) | a) + (1 if a else 0)

class Model:
    def __init__(self, cfg, nodes=None):
        self.cfg = cfg
        self.boards = {b['id']: b for b in cfg['boards']}
        self.by_uid = {b['uid']: b for b in cfg['boards']}
        self.addr = {}                      # board id -> address tuple (connected boards only)
        self.st = self.initial_state()
        self.train_by_addr = {(t['addr'][0], t['addr'][1]): t for t in cfg['trains']}
        if nodes:
            for a, uid in nodes:
                b = self.by_uid.get(uid)
                if b:
                    self.addr[b['id']] = tuple(a)

    # ------------------------------------------------------------------ initial state
    def initial_state(self):
        st = {'points_board': {}, 'points_dcc': {}, 'signals_board': {}, 'signals_dcc': {}, 'peripherals': {}, 'segments': {},
              'reversers': {}, 'trains': {}, 'boosters': {}, 'track_outputs': {}}
        order = {k: [] for k in st}
        for b in self.cfg['boards']:
            for kind in ('points_board', 'signals_board'):
                for a in b.get(kind) or []:
                    st[kind][a['id']] = {'state_id': 'unknown', 'value': 0, 'exec': 2, 'wait': 0}
                    order[kind].append(a['id'])
            for kind in ('points_dcc', 'signals_dcc'):
                for a in b.get(kind) or []:
                    st[kind][a['id']] = {'state_id': 'unknown', 'value': 0, 'coil_on': None, 'oct': None, 'ack': None, 'time_unit': 0, 'switch_time': 0}
                    order[kind].append(a['id'])
            for a in b.get('peripherals') or []:
                st['peripherals'][a['id']] = {'state_id': 'unknown', 'value': 0, 'time_unit': 0, 'wait': 0}
                order['peripherals'].append(a['id'])
            for s in b.get('segments') or []:
                st['segments'][s['id']] = {'occupied': 0, 'conf': {'void': 0, 'freeze': 0, 'nosignal': 0}, 'pc': {'known': 0}, 'addrs': []}
                order['segments'].append(s['id'])
            for r in b.get('reversers') or []:
                st['reversers'][r['id']] = {'state_id': 'unknown', 'value': 2}
                order['reversers'].append(r['id'])
            if cfggen.is_booster(b):
                st['boosters'][b['id']] = {'power_state': 0, 'simple': 1, 'pc': {'known': 0}, 'voltage_known': 0, 'temp_known': 0}
                order['boosters'].append(b['id'])
            if cfggen.is_track_output(b):
                st['track_outputs'][b['id']] = {'cs_state': 0}
                order['track_outputs'].append(b['id'])
        for t in self.cfg['trains']:
            st['trains'][t['id']] = {'on_track': 0, 'orientation': 0, 'orientations_ok': {0}, 'speed_step': 0, 'forwards': 1, 'ack': 4, 'kmh': 0,
                                     'periphs': {p['id']: 0 for p in (t.get('peripherals') or [])},
                                     'dec': {'signal_quality_known': 0, 'temp_known': 0, 'energy_storage_known': 0,
                                             'container2_storage_known': 0, 'container3_storage_known': 0},
                                     'position': []}
            order['trains'].append(t['id'])
        self.order = order
        return st

    # ------------------------------------------------------------------ lookup helpers
    def board_at(self, addr):
        addr = tuple(addr)
        for bid, a in self.addr.items():
            if a == addr:
                return self.boards[bid]
        return None

    def connected(self, bid):
        return bid in self.addr

    def train_at(self, l, h):
        return self.train_by_addr.get((h & 0x3F, l))

    def seg_of(self, board, num):
        for s in board.get('segments') or []:
            if s['address'] == num:
                return s
        return None

    def derive_trains(self):
        for t in self.cfg['trains']:
            ts = self.st['trains'][t['id']]
            key = (t['addr'][1], t['addr'][0])      # (l, h)
            pos = []
            orients = []
            for sid in self.order['segments']:
                for (l, h, ty) in self.st['segments'][sid]['addrs']:
                    if (l, h) == key:
                        pos.append(sid)
                        orients.append(0 if ty == 0 else 1)
            ts['position'] = pos
            if pos:
                ts['on_track'] = 1
                ts['orientations_ok'] = set(orients)
                ts['orientation'] = orients[-1]
            else:
                ts['on_track'] = 0
                ts['orientations_ok'] = {ts['orientation']} if ts['orientation'] is not None else {0, 1}

    # ------------------------------------------------------------------ uplink fold
    def on_uplink(self, addr, t, d):
        b = self.board_at(addr)
        st = self.st
        if t == C('MSG_NODE_NEW') and len(d) >= 9:
            nb = self.by_uid.get(bytes(d[2:9]))
            if nb:
                a = list(addr)
                k = 0 if a[0] == 0 else 1 if a[1] == 0 else 2
                a[k] = d[1]
                self.addr[nb['id']] = tuple(a)
            return
        if t == C('MSG_NODE_LOST') and len(d) >= 9:
            nb = self.by_uid.get(bytes(d[2:9]))
            if nb and nb['id'] in self.addr:
                a = self.addr.pop(nb['id'])
                if cfggen.is_interface(nb):
                    k = 0 if a[0] == 0 else 1 if a[1] == 0 else 2 if a[2] == 0 else 3
                    for bid, x in list(self.addr.items()):
                        if k < 3 and x[:k] == a[:k] and x != a:
                            self.addr.pop(bid)
            return
        if t == C('MSG_CS_DRIVE_ACK') and len(d) >= 3:
            tr = self.train_at(d[0], d[1])
            if tr:
                st['trains'][tr['id']]['ack'] = d[2]
            return
        if t == C('MSG_BM_SPEED') and len(d) >= 4:
            tr = self.train_at(d[0], d[1])
            if tr:
                st['trains'][tr['id']]['kmh'] = (d[3] << 8) | d[2]
            return
        if t == C('MSG_BM_DYN_STATE') and len(d) >= 5:
            tr = self.train_at(d[1], d[2])
            if tr:
                dec = st['trains'][tr['id']]['dec']
                num, val = d[3], d[4]
                name = {1: 'signal_quality', 2: 'temp', 3: 'energy_storage', 4: 'container2_storage', 5: 'container3_storage'}.get(num)
                if name:
                    dec[name + '_known'] = 1
                    dec[{'temp': 'temp_celsius'}.get(name, name)] = s8(val) if name == 'temp' else val
            return
        if t == C('MSG_CS_DRIVE_MANUAL') and len(d) >= 9:
            self.cs_drive(d)
            return
        if b is None:
            return
        bid = b['id']
        if t == C('MSG_CS_STATE') and d and bid in st['track_outputs']:
            st['track_outputs'][bid]['cs_state'] = d[0]
        elif t == C('MSG_BOOST_STAT') and d and bid in st['boosters']:
            bs = st['boosters'][bid]
            bs['power_state'] = d[0]
            bs['simple'] = 0 if d[0] in ON_STATES else 1 if d[0] in OFF_STATES else 2
        elif t == C('MSG_BOOST_DIAGNOSTIC') and bid in st['boosters']:
            bs = st['boosters'][bid]
            for i in range(0, len(d) - 1, 2):
                k, v = d[i], d[i + 1]
                if k == 0:
                    bs['pc'] = current_code(v)
                elif k == 1:
                    if v < 251:
                        bs['voltage_known'] = 1
                        bs['voltage'] = v
                    else:
                        bs['voltage_known'] = 0
                        bs.pop('voltage', None)
                elif k == 2:
                    bs['temp_known'] = 1
                    bs['temp'] = s8(v)
        elif t in (C('MSG_ACCESSORY_STATE'), C('MSG_ACCESSORY_NOTIFY')) and len(d) >= 5:
            for kind in ('points_board', 'signals_board'):
                for a in b.get(kind) or []:
                    if a['number'] == d[0]:
                        e = st[kind][a['id']]
                        e['value'] = d[1]
                        e['state_id'] = next((aid for aid, v in a['aspects'] if v == d[1]), 'unknown')
                        e['exec'] = d[3]
                        e['wait'] = d[4]
                        return
        elif t == C('MSG_CS_ACCESSORY_ACK') and len(d) >= 3:
            a, kind = self.dcc_acc(b, d[0], d[1])
            if a:
                st[kind][a['id']]['ack'] = d[2]
        elif t == C('MSG_CS_ACCESSORY_MANUAL') and len(d) >= 3:
            a, kind = self.dcc_acc(b, d[0], d[1])
            if a:
                e = st[kind][a['id']]
                e['value'] = d[2] & 0x1F
                e['coil_on'] = 1 if d[2] & 0x20 else 0
                e['switch_time'] = 0
        elif t == C('MSG_LC_STAT') and len(d) >= 3:
            for p in b.get('peripherals') or []:
                if (p['port'][1], p['port'][0]) == (d[0], d[1]):
                    e = st['peripherals'][p['id']]
                    e['value'] = d[2]
                    e['state_id'] = next((aid for aid, v in p['aspects'] if v == d[2]), 'unknown')
        elif t == C('MSG_LC_WAIT') and len(d) >= 3:
            for p in b.get('peripherals') or []:
                if (p['port'][1], p['port'][0]) == (d[0], d[1]):
                    e = st['peripherals'][p['id']]
                    e['time_unit'] = 1 if d[2] & 0x80 else 0
                    e['wait'] = d[2] & 0x7F
        elif t in (C('MSG_BM_OCC'), C('MSG_BM_FREE')) and d:
            s = self.seg_of(b, d[0])
            if s:
                e = st['segments'][s['id']]
                e['occupied'] = 1 if t == C('MSG_BM_OCC') else 0
                if not e['occupied']:
                    e['addrs'] = []
                self.derive_trains()
        elif t == C('MSG_BM_MULTIPLE') and len(d) >= 2:
            base, size = d[0], d[1]
            for i in range(size):
                if base + i >= 255 or 2 + i // 8 >= len(d):
                    continue
                s = self.seg_of(b, base + i)
                if s:
                    e = st['segments'][s['id']]
                    bit = (d[2 + i // 8] >> (i % 8)) & 1
                    e['occupied'] = bit
                    if not bit:
                        e['addrs'] = []
            self.derive_trains()
        elif t == C('MSG_BM_ADDRESS') and len(d) >= 3:
            s = self.seg_of(b, d[0])
            if s:
                e = st['segments'][s['id']]
                pairs = [(d[i], d[i + 1]) for i in range(1, len(d) - 1, 2)]
                e['addrs'] = []
                if not (len(pairs) == 1 and pairs[0] == (0, 0)):
                    for (l, h) in pairs:
                        if not h & 0x40:
                            e['addrs'].append((l, h & 0x3F, (h >> 6) & 3))
                self.derive_trains()
        elif t == C('MSG_BM_CONFIDENCE') and len(d) >= 3:
            for s in b.get('segments') or []:
                st['segments'][s['id']]['conf'] = {'void': int(d[0] != 0), 'freeze': int(d[1] != 0), 'nosignal': int(d[2] != 0)}
        elif t == C('MSG_BM_CURRENT') and len(d) >= 2:
            s = self.seg_of(b, d[0])
            if s:
                st['segments'][s['id']]['pc'] = current_code(d[1])
        elif t == C('MSG_VENDOR') and len(d) >= 2:
            nl = d[0]
            name = bytes(d[1:1 + nl])
            if 1 + nl < len(d):
                vl = d[1 + nl]
                val = bytes(d[len(d) - vl:]) if vl else b''
                for r in b.get('reversers') or []:
                    if r['cv'].encode() == name:
                        e = st['reversers'][r['id']]
                        e['state_id'] = r['id']
                        e['value'] = 0 if val[:1] == b'0' else 1 if val[:1] == b'3' else 2

    def dcc_acc(self, b, l, h):
        for kind in ('points_dcc', 'signals_dcc'):
            for a in b.get(kind) or []:
                if (a['addr'][1], a['addr'][0]) == (l, h):
                    return a, kind
        return None, None

    # ------------------------------------------------------------------ optimistic effect of commands (seen on the wire or at call time)
    def cs_drive(self, d):
        """d = addrl, addrh, format, active, speed, f1..f4"""
        tr = self.train_at(d[0], d[1])
        if not tr:
            return
        ts = self.st['trains'][tr['id']]
        active, speed, f = d[3], d[4], d[5:9]
        if active == 0:
            ts['speed_step'] = 0
            ts['forwards'] = 1
            for k in ts['periphs']:
                ts['periphs'][k] = 0
            return
        if active & 1:
            ts['speed_step'] = speed_from_dcc(speed)
            ts['forwards'] = 1 if speed >= 0x80 else 0
        ts['ack'] = 4
        groups = {1: range(0, 5), 2: range(8, 12), 3: range(12, 16), 4: range(16, 24), 5: range(24, 32)}
        for g, bits in groups.items():
            if active & (1 << g):
                for p in tr.get('peripherals') or []:
                    if p['bit'] in bits:
                        ts['periphs'][p['id']] = (f[p['bit'] // 8] >> (p['bit'] % 8)) & 1

    def cs_accessory(self, addr, d):
        """d = addrl, addrh, data, time, sent to the board at addr"""
        b = self.board_at(addr)
        if not b:
            return
        a, kind = self.dcc_acc(b, d[0], d[1])
        if not a:
            return
        e = self.st[kind][a['id']]
        # A high-level command sets state_id to the aspect after its port messages; those may reach the wire later than the call
        # (budget deferral). A wire message that is one of the port messages of the aspect currently named keeps the name.
        cur = next((pv for aid, pv in a['aspects'] if aid == e['state_id']), None)
        consistent = cur is not None and d[3] == 0 and ((d[2] >> 7) & 1) == a['extended'] and (d[2] & 0x1F, (d[2] >> 5) & 1) in [tuple(x) for x in cur]
        if not consistent:
            e['state_id'] = 'unknown'
        e['value'] = d[2] & 0x1F
        e['coil_on'] = 1 if d[2] & 0x20 else 0
        e['oct'] = 0 if d[2] & 0x40 else 1
        e['time_unit'] = 1 if d[3] & 0x80 else 0
        e['switch_time'] = d[3] & 0x7F

    def on_wire(self, addr, t, d):
        if t == C('MSG_CS_DRIVE') and len(d) >= 9:
            self.cs_drive(d)
        elif t == C('MSG_CS_ACCESSORY') and len(d) >= 4:
            self.cs_accessory(addr, d)
        elif t == C('MSG_VENDOR_GET') and len(d) >= 1:
            # a reverser state request marks the state as unknown until the answer arrives
            b = self.board_at(addr)
            name = bytes(d[1:1 + d[0]])
            for r in (b or {}).get('reversers') or []:
                if r['cv'].encode() == name:
                    self.st['reversers'][r['id']]['value'] = 2

    def set_dcc_state_id(self, acc_id, aspect_id):
        for kind in ('points_dcc', 'signals_dcc'):
            if acc_id in self.st[kind]:
                self.st[kind][acc_id]['state_id'] = aspect_id

    def clone(self):
        m = copy.copy(self)
        m.st = copy.deepcopy(self.st)
        m.addr = dict(self.addr)
        return m

# ------------------------------------------------------------------ comparison with a snapshot event
def _cmp(path, exp, got, diffs):
    if exp is None:
        return
    if isinstance(exp, dict):
        if not isinstance(got, dict):
            diffs.append((path, exp, got))
            return
        for k, v in exp.items():
            if k in ('orientations_ok', 'position'):
                continue
            _cmp(path + '.' + k, v, got.get(k), diffs)
        return
    if exp != got:
        diffs.append((path, exp, got))

def compare_state(m, snap):
    """-> list of (path, expected, got). snap = the 'state' object of a snap event."""
    diffs = []
    st = m.st
    for kind in ('points_board', 'points_dcc', 'signals_board', 'signals_dcc', 'peripherals', 'reversers', 'track_outputs'):
        got = {e['id']: e for e in snap.get(kind, [])}
        if [e['id'] for e in snap.get(kind, [])] != m.order[kind]:
            diffs.append((kind + '.ids', m.order[kind], [e['id'] for e in snap.get(kind, [])]))
            continue
        for eid, exp in st[kind].items():
            _cmp(f'{kind}.{eid}', exp, got.get(eid), diffs)
    got = {e['id']: e for e in snap.get('boosters', [])}
    if [e['id'] for e in snap.get('boosters', [])] != m.order['boosters']:
        diffs.append(('boosters.ids', m.order['boosters'], list(got)))
    else:
        for eid, exp in st['boosters'].items():
            _cmp(f'boosters.{eid}', exp, got.get(eid), diffs)
    got = {e['id']: e for e in snap.get('segments', [])}
    if [e['id'] for e in snap.get('segments', [])] != m.order['segments']:
        diffs.append(('segments.ids', m.order['segments'], list(got)))
    else:
        for eid, exp in st['segments'].items():
            g = got.get(eid) or {}
            _cmp(f'segments.{eid}', {k: v for k, v in exp.items() if k != 'addrs'}, g, diffs)
            ga = [(a['l'], a['h'], a['type']) for a in (g.get('addrs') or [])]
            if ga != [tuple(x) for x in exp['addrs']]:
                diffs.append((f'segments.{eid}.addrs', exp['addrs'], ga))
    got = {e['id']: e for e in snap.get('trains', [])}
    if [e['id'] for e in snap.get('trains', [])] != m.order['trains']:
        diffs.append(('trains.ids', m.order['trains'], list(got)))
    else:
        for eid, exp in st['trains'].items():
            g = got.get(eid) or {}
            for k in ('on_track', 'speed_step', 'forwards', 'ack', 'kmh'):
                _cmp(f'trains.{eid}.{k}', exp[k], g.get(k), diffs)
            if g.get('orientation') not in exp['orientations_ok']:
                diffs.append((f'trains.{eid}.orientation', sorted(exp['orientations_ok']), g.get('orientation')))
            gp = {p['id']: p['state'] for p in (g.get('periphs') or [])}
            _cmp(f'trains.{eid}.periphs', exp['periphs'], gp, diffs)
            _cmp(f'trains.{eid}.dec', exp['dec'], g.get('dec'), diffs)
    return diffs

def compare_single(m, snap):
    """single-entity getters and derived train getters vs. the model (C07/C08) -> diffs"""
    diffs = []
    single = snap.get('single', {})
    for t in m.cfg['trains']:
        tid = t['id']
        exp = m.st['trains'][tid]
        pos = single.get('trainpos:' + tid, {})
        if sorted(pos.get('segments') or []) != sorted(exp['position']):
            diffs.append((f'trainpos:{tid}', exp['position'], pos.get('segments')))
        ot = single.get('on_track:' + tid)
        if ot != exp['on_track']:
            diffs.append((f'on_track:{tid}', exp['on_track'], ot))
        ss = single.get('speedstep:' + tid, {})
        if bool(ss.get('known')) != bool(exp['on_track']):
            diffs.append((f'speedstep:{tid}.known', exp['on_track'], ss.get('known')))
        elif exp['on_track']:
            if ss.get('speed_step') != exp['speed_step'] or ss.get('forwards') != exp['forwards']:
                diffs.append((f'speedstep:{tid}', (exp['speed_step'], exp['forwards']), (ss.get('speed_step'), ss.get('forwards'))))
        kq = single.get('kmh:' + tid, {})
        if bool(kq.get('known')) != bool(exp['on_track']) or (exp['on_track'] and kq.get('kmh') != exp['kmh']):
            diffs.append((f'kmh:{tid}', (exp['on_track'], exp['kmh']), kq))
    tot = snap.get('enum', {}).get('trains_on_track')
    exp_tot = [t['id'] for t in m.cfg['trains'] if m.st['trains'][t['id']]['on_track']]
    if tot is not None and sorted(tot) != sorted(exp_tot):
        diffs.append(('trains_on_track', exp_tot, tot))
    return diffs

def snapshot_vs_single(snap):
    """C17 clause: every field of bidib_get_state() equals the corresponding single-entity getter -> diffs"""
    diffs = []
    st, single = snap['state'], snap.get('single', {})

    def chk(prefix, e, fields, known_key='known'):
        q = single.get(prefix + e['id'])
        if q is None:
            diffs.append((prefix + e['id'], 'present', None))
            return
        if not q.get(known_key):
            diffs.append((prefix + e['id'] + '.known', 1, q.get(known_key)))
            return
        for f in fields:
            if q.get(f) != e.get(f):
                diffs.append((prefix + e['id'] + '.' + f, e.get(f), q.get(f)))
    for kind, pfx in (('points_board', 'point:'), ('signals_board', 'signal:')):
        for e in st.get(kind, []):
            chk(pfx, e, ['state_id', 'value', 'exec', 'wait'])
    for kind, pfx in (('points_dcc', 'point:'), ('signals_dcc', 'signal:')):
        for e in st.get(kind, []):
            chk(pfx, e, ['state_id', 'value', 'coil_on', 'oct', 'ack', 'time_unit', 'switch_time'])
    for e in st.get('peripherals', []):
        chk('periph:', e, ['state_id', 'value', 'time_unit', 'wait'])
    for e in st.get('segments', []):
        chk('segment:', e, ['occupied', 'conf', 'pc', 'addrs'])
    for e in st.get('reversers', []):
        chk('reverser:', e, ['state_id', 'value'])
    for e in st.get('boosters', []):
        chk('booster:', e, ['power_state', 'simple', 'pc', 'voltage_known', 'voltage', 'temp_known', 'temp'])
    for e in st.get('track_outputs', []):
        chk('to:', e, ['cs_state'])
    # the documented index getters: position of the entity in the snapshot's array, -1 when it is not in that array
    for kind, name in (('points_board', 'point'), ('signals_board', 'signal'), ('segments', 'segment')):
        arr = st.get(kind, [])
        for i, e in enumerate(arr):
            ix = single.get(f'index:{name}:{e["id"]}')
            if ix is not None and ix != i:
                diffs.append((f'index:{name}:{e["id"]}', i, ix))
    for kind, name in (('points_dcc', 'point'), ('signals_dcc', 'signal')):
        for e in st.get(kind, []):
            ix = single.get(f'index:{name}:{e["id"]}')
            if ix is not None and ix != -1:
                diffs.append((f'index:{name}:{e["id"]}', -1, ix))
    for name in ('point', 'signal', 'segment'):
        ix = single.get(f'index:{name}:no-such-id')
        if ix is not None and ix != -1:
            diffs.append((f'index:{name}:no-such-id', -1, ix))
    for e in st.get('trains', []):
        chk('train:', e, ['on_track', 'orientation', 'speed_step', 'forwards', 'ack', 'kmh', 'periphs', 'dec'])
        for p in e.get('periphs') or []:
            q = single.get(f'tperiph:{e["id"]}/{p["id"]}')
            if not q or not q.get('known') or q.get('state') != p['state']:
                diffs.append((f'tperiph:{e["id"]}/{p["id"]}', p['state'], q))
    return diffs
