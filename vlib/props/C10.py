"""C10 - the documented thread-safe API is race-free and atomic under concurrent use.
Four monitors on the same stress workload: (1) ThreadSanitizer - any report whose accessing frames are library code; (2) the contract
monitor - every entry of an internal accessor documented "shall only be called with X acquired" checks the caller's held-set;
(3) history oracles - getter results of receiver-written entities must equal a state that existed during the call (known state
sequence), internally consistent entities, every queued uplink message returned to exactly one reader; (4) lost-update oracle for the
read-modify-write commands (train functions): with one writer thread per function, every function ends in the state its writer set
last; (5) the downlink stream written by all threads decodes strictly and carries per-node consecutive sequence numbers."""
import hashlib
from collections import Counter

from .. import cfggen, fold, gen, model, runner, spec_lowlevel as S, statemodel, sweep, uplink
from ..model import C
from ..scen import Scn, call, up, s as S_
from .C05 import seq_scan
from .C07 import cfg_dir, gen_feedback

# send functions without data bytes and without a response (no effect on the queue and state oracles)
DATALESS = ['bidib_send_sys_enable', 'bidib_send_sys_disable']

RECV_KINDS = ('segments', 'boosters', 'track_outputs', 'points_board', 'signals_board', 'peripherals', 'reversers')

def make_cfg(rng, tag, hubs=False):
    cfg = cfggen.gen_config(rng, nboards=rng.randrange(1, 4) if not hubs else rng.randrange(3, 6), with_initial=False)
    if hubs:
        for b in cfg['boards'][1:]:
            if rng.random() < 0.6:
                b['uid'] = bytes([b['uid'][0] | 0x80]) + b['uid'][1:]      # hubs with boards beneath them: a lost hub takes its subtree along in ONE step
    # a train with several functions per group (read-modify-write commands), a track output and some segments
    cfg['trains'] = [t for t in cfg['trains'] if False]
    for ti in range(2):
        bits = rng.sample([0, 1, 2, 3, 4, 8, 9, 10, 11, 16, 17, 18, 24, 25, 31], 8)
        cfg['trains'].append({'id': f'tr{ti}', 'addr': cfggen.free_dcc(cfg, (0x30 + ti, 0x40 + ti)), 'steps': 28, 'calibration': None,
                              'peripherals': [{'id': f'tr{ti}f{b}', 'bit': b, 'initial': None} for b in bits]})
    b0 = cfg['boards'][0]
    b0['uid'] = bytes([b0['uid'][0] | 0x12]) + b0['uid'][1:]
    if not b0.get('segments'):
        b0['segments'] = [{'id': f'cs{i}', 'address': i, 'length': '1cm'} for i in range(6)]
    d = cfggen.write_config(cfg, cfg_dir(tag))
    nodes = cfggen.assign_tree(rng, cfg, absent_prob=0.0, unknown=0)
    m = statemodel.Model(cfg, nodes)
    return cfg, d, nodes, m, b0

def other_getters(cfg):
    """single-entity getters for the entities only the receiver thread writes"""
    out = []
    for b in cfg['boards']:
        out += [f'periph {a["id"]}' for a in (b.get('peripherals') or [])] + [f'point {a["id"]}' for a in (b.get('points_board') or [])] + \
               [f'signal {a["id"]}' for a in (b.get('signals_board') or [])] + [f'reverser {a["id"]}' for a in (b.get('reversers') or [])]
        if cfggen.is_track_output(b):
            out.append(f'to {b["id"]}')
    return out

def hot_entities(cfg, m):
    """(getter line, feedback generator) per entity that only the receiver writes: the feedback changes exactly that entity"""
    out = []
    for b in cfg['boards']:
        if not m.connected(b['id']):
            continue
        ad = m.addr[b['id']]
        for a in (b.get('peripherals') or []):
            out.append((f'periph {a["id"]}', lambda rng, a=a, ad=ad: (ad, C('MSG_LC_STAT'), bytes([a['port'][1], a['port'][0], rng.choice([x[1] for x in a['aspects']] + [rng.randrange(256)])]))))
        for kind, nm in (('points_board', 'point'), ('signals_board', 'signal')):
            for a in (b.get(kind) or []):
                out.append((f'{nm} {a["id"]}', lambda rng, a=a, ad=ad: (ad, C('MSG_ACCESSORY_STATE'), bytes([a['number'], rng.choice([x[1] for x in a['aspects']] + [rng.randrange(128)]),
                                                                                                                 2, rng.choice([0, 1, 2, 3]), rng.randrange(256)]))))
        for sg in (b.get('segments') or []):
            out.append((f'segment {sg["id"]}', lambda rng, sg=sg, ad=ad: (ad, C(rng.choice(['MSG_BM_OCC', 'MSG_BM_FREE'])), bytes([sg['address']]))))
        if cfggen.is_track_output(b):
            out.append((f'to {b["id"]}', lambda rng, ad=ad: (ad, C('MSG_CS_STATE'), bytes([rng.choice([0, 1, 2, 3, 4, 8])]))))
    return out

def group_of(bit):
    return 0 if bit <= 4 else 1 if bit <= 8 else 2 if bit <= 12 else 3 if bit <= 20 else 4

def gen_directed(ctx, k):
    """Directed preemption instead of luck. Three kinds of cases in one session:
    rmw   - thread A is paused at the j-th scheduling point of a train-function command, thread B then commands ANOTHER function of the same
            train (same or different function group) completely; both functions must end as commanded (one writer each).
    recv  - the receiver is paused at the j-th scheduling point of its processing of one feedback message; the main thread calls getters.
    queue - a reader is paused inside bidib_read_message while another reader drains; every queued message is returned exactly once."""
    rng = ctx.sub_rng('c10d', k)
    cfg, d, nodes, m, b0 = make_cfg(rng, f'c10d_{k}', hubs=(k % 2 == 0))
    sc = Scn(seed=ctx.seed * 127 + k, perturb=0, watchdog=300000)
    sc.add(*cfggen.bus_lines(cfg, nodes), 'bus brackets 1', f'start {d} 0', 'quiesce', 'mark conc_begin')
    tos = [b for b in cfg['boards'] if cfggen.is_track_output(b) and m.connected(b['id'])]
    to = tos[0]['id']
    fn = bool(k % 2)
    kmax = 90 if fn else 22
    segs = [s_['id'] for b in cfg['boards'] for s_ in (b.get('segments') or [])]
    last_set = {}
    npong = 0
    idx = 0
    notices = [0]
    for i in range(rng.randrange(50, 90)):
        j = 1 + (i * 5 + k * 3) % kmax
        kind = rng.choice(['rmw', 'rmw', 'recv', 'recv', 'queue', 'getp', 'getp', 'notice'])
        if kind == 'rmw':
            t = rng.choice(cfg['trains'])
            pa, pb = rng.sample(t['peripherals'], 2)
            if rng.random() < 0.7:
                same = [p for p in t['peripherals'] if p is not pa and group_of(p['bit']) == group_of(pa['bit'])]
                if same:
                    pb = rng.choice(same)
            va, vb = rng.randrange(2), rng.randrange(2)
            sweep.add_two_thread_case(sc, idx, [call('bidib_set_train_peripheral', S_(t['id']), S_(pa['id']), va, S_(to))],
                                      [call('bidib_set_train_peripheral', S_(t['id']), S_(pb['id']), vb, S_(to))], j, fn, after=('flush', 'quiesce'))
            last_set[(t['id'], pa['id'])] = va
            last_set[(t['id'], pb['id'])] = vb
        elif kind == 'notice':
            # a hub with boards beneath it is reported lost while the receiver is paused in the middle of processing the notice: the enumeration
            # getters over the board table return the tree before or after the notice, never the hub gone and its sub-nodes still there
            conn = [b for b in cfg['boards'] if m.connected(b['id']) and m.addr[b['id']] != (0, 0, 0)]

            def below(x):
                ax = m.addr[x['id']]
                dx = 1 if ax[1] == 0 else 2 if ax[2] == 0 else 3
                return [y for y in conn if y is not x and dx < 3 and m.addr[y['id']][:dx] == ax[:dx]]
            keep = {b0['id'], to}         # the track output the train-function commands go through must stay connected (one writer per function)
            hubs_ = [x for x in conn if below(x) and x['id'] not in keep and not any(y['id'] in keep for y in below(x))]
            if not hubs_ or notices[0] >= 2:
                continue
            L = rng.choice(hubs_)
            a = m.addr[L['id']]
            dpt = 1 if a[1] == 0 else 2 if a[2] == 0 else 3
            parent = tuple(list(a[:dpt - 1]) + [0] * (3 - (dpt - 1)))
            data = bytes([2 + notices[0], a[dpt - 1]]) + L['uid']
            sweep.add_receiver_case(sc, idx, [up(model.build_msg(parent, 0, C('MSG_NODE_LOST'), data))], ['get enum x', 'get enum x'], 1 + (i * 3 + k) % (60 if fn else 12), fn)
            m.on_uplink(parent, C('MSG_NODE_LOST'), data)
            notices[0] += 1
        elif kind == 'getp':
            # the GETTER is paused at its j-th scheduling point (e.g. right after it released the state mutex) and the receiver then processes a
            # message that changes exactly the queried entity; the result must be the entity before or after it, and no access of the paused
            # getter may be unordered with the receiver's update (TSan flavour)
            hot = hot_entities(cfg, m)
            if not hot:
                continue
            gl, fb = rng.choice(hot)
            ad, ty, data = fb(rng)
            sweep.add_two_thread_case(sc, idx, ['get ' + gl], [up(model.build_msg(ad, 0, ty, data)), 'settle'], 1 + (i * 3 + k) % (30 if fn else 8), fn, after=('quiesce',))
        elif kind == 'recv':
            ad, ty, data = gen_feedback(rng, m, cfg, nodes)
            if ty in (C('MSG_NODE_LOST'), C('MSG_NODE_NEW'), C('MSG_CS_DRIVE_MANUAL')):
                continue
            og = other_getters(cfg)
            lines = [rng.choice(['get state x', f'get segment {rng.choice(segs)}' if segs else 'get state x', f'get booster {b0["id"]}'] + ['get ' + rng.choice(og)] * (3 if og else 0))
                     for _ in range(rng.randrange(1, 3))]
            sweep.add_receiver_case(sc, idx, [up(model.build_msg(ad, 0, ty, data))], lines, j, fn)
        else:
            n = rng.randrange(2, 5)
            for _ in range(n):
                sc.add(up(model.build_msg((0, 0, 0), 0, C('MSG_SYS_PONG'), bytes([npong & 0xFF, npong >> 8, 0x5C]))))
                npong += 1
            sc.add('quiesce')
            sweep.add_two_thread_case(sc, idx, ['readm'], ['readm'] * n, j, fn, after=('readm',))
        idx += 1
    sc.add('flush', 'quiesce', 'flush', 'quiesce', 'snap end', 'drain', 'stop')
    return sc.text(), cfg, nodes, last_set, npong, 2

def gen_notice_sweep(ctx, k):
    """board-table atomicity, swept: a first-level hub with boards beneath it is reported lost with the receiver paused at its j-th scheduling
    point (j = 1..J), the main thread reads the enumeration getters, then the hub and its sub-nodes log on again (top down) and the next j follows"""
    rng = ctx.sub_rng('c10n', k)
    for _try in range(40):
        cfg, d, nodes, m, b0 = make_cfg(rng, f'c10n_{k}', hubs=True)
        conn = [b for b in cfg['boards'] if m.connected(b['id']) and m.addr[b['id']] != (0, 0, 0)]

        def below(x):
            ax = m.addr[x['id']]
            dx = 1 if ax[1] == 0 else 2 if ax[2] == 0 else 3
            return [y for y in conn if y is not x and dx < 3 and m.addr[y['id']][:dx] == ax[:dx]]
        hubs_ = [x for x in conn if below(x) and m.addr[x['id']][1] == 0]
        if hubs_:
            break
    else:
        return None
    L = rng.choice(hubs_)
    kids = sorted(below(L), key=lambda y: 0 if m.addr[y['id']][2] == 0 else 1)          # second level before third level
    addr0 = {b['id']: m.addr[b['id']] for b in [L] + kids}
    sc = Scn(seed=ctx.seed * 131 + k, perturb=0, watchdog=300000)
    sc.add(*cfggen.bus_lines(cfg, nodes), 'bus brackets 1', f'start {d} 0', 'quiesce', 'mark conc_begin')
    fn = bool(k % 2)
    ver = 2
    for idx, j in enumerate(range(1, (70 if fn else 16))):
        lost = bytes([ver, addr0[L['id']][0]]) + L['uid']
        ver = ver % 255 + 1
        sweep.add_receiver_case(sc, idx, [up(model.build_msg((0, 0, 0), 0, C('MSG_NODE_LOST'), lost))], ['get enum x', 'get enum x'], j, fn)
        m.on_uplink((0, 0, 0), C('MSG_NODE_LOST'), lost)
        for b in [L] + kids:
            oa = addr0[b['id']]
            dpt = 1 if oa[1] == 0 else 2 if oa[2] == 0 else 3
            parent = tuple(list(oa[:dpt - 1]) + [0] * (3 - (dpt - 1)))
            new = bytes([ver, oa[dpt - 1]]) + b['uid']
            ver = ver % 255 + 1
            sc.add(up(model.build_msg(parent, 0, C('MSG_NODE_NEW'), new)), 'quiesce')
            m.on_uplink(parent, C('MSG_NODE_NEW'), new)
    sc.add('flush', 'quiesce', 'snap end', 'drain', 'stop')
    return sc.text(), cfg, nodes, {}, 0, 2

def gen_scenario(ctx, k, flavour, small=False):
    rng = ctx.sub_rng('c10', k)
    cfg, d, nodes, m, b0 = make_cfg(rng, f'c10_{k}')
    sc = Scn(seed=ctx.seed * 113 + k, perturb=rng.choice([0, 100, 300, 600]), watchdog=300000)
    sc.add(*cfggen.bus_lines(cfg, nodes), 'bus brackets 1', f'start {d} {rng.choice([1, 2, 5])}', 'quiesce', 'mark conc_begin')
    nt = rng.choice([2, 3, 4, 8, 16]) if not small else rng.choice([2, 3, 4])
    tos = [b for b in cfg['boards'] if cfggen.is_track_output(b) and m.connected(b['id'])]
    to = tos[0]['id']
    sc.add(f'par {nt + 1}')
    # thread 0: the feeder - state-changing feedback (one message per packet) and unique PONGs for the queue oracle
    npong = 0
    nfeed = rng.randrange(60, 200) if not small else rng.randrange(30, 60)
    for i in range(nfeed):
        if rng.random() < 0.25 and npong < 110:
            sc.add('t 0 ' + up(model.build_msg((0, 0, 0), 0, C('MSG_SYS_PONG'), bytes([npong & 0xFF, npong >> 8, 0x5C]))))
            npong += 1
        else:
            ad, t, data = gen_feedback(rng, m, cfg, nodes)
            if t in (C('MSG_NODE_LOST'), C('MSG_NODE_NEW'), C('MSG_CS_DRIVE_MANUAL')):
                continue        # manual drive reports also write the train functions: they would break the one-writer-per-function discipline
            sc.add('t 0 ' + up(model.build_msg(ad, 0, t, data)))
        if rng.random() < 0.4:
            sc.add(f't 0 sleepreal {rng.randrange(20, 200)}')
    # application threads: each owns some train functions (single writer per function), plus a random mix of everything thread-safe
    owners = {}
    fns = [(t['id'], p['id']) for t in cfg['trains'] for p in t['peripherals']]
    for i, f in enumerate(fns):
        owners[f] = 1 + i % nt
    last_set = {}
    segs = [s_['id'] for b in cfg['boards'] for s_ in (b.get('segments') or [])]
    zr = gen.zero_response_names()
    others = other_getters(cfg)
    addrs = [m.addr[b['id']] for b in cfg['boards'] if m.connected(b['id'])]
    for t in range(1, nt + 1):
        mine = [f for f in fns if owners[f] == t]
        for i in range(rng.randrange(60, 160) if not small else rng.randrange(25, 50)):
            r_ = rng.random()
            if r_ < 0.3 and mine:
                f = rng.choice(mine)
                v = rng.randrange(2)
                sc.add(f't {t} ' + call('bidib_set_train_peripheral', S_(f[0]), S_(f[1]), v, S_(to)))
                last_set[f] = v
            elif r_ < 0.4:
                nm, ad, a, data = gen.random_call(rng, rng.choice(addrs), names=(DATALESS if rng.random() < 0.4 else zr), hot=0.2)
                sc.add(f't {t} ' + call(nm, *S.tokens(nm, ad, a)))
            elif r_ < 0.5:
                b = rng.choice(cfg['boards'])
                sc.add(f't {t} ' + call('bidib_ping', S_(b['id']), rng.randrange(256)))
            elif r_ < 0.6 and segs:
                sc.add(f't {t} get segment {rng.choice(segs)}')
            elif r_ < 0.68:
                sc.add(f't {t} get booster {b0["id"]}')
            elif r_ < 0.76:
                sc.add(f't {t} get train {rng.choice(cfg["trains"])["id"]}')
            elif r_ < 0.8 and others:
                sc.add(f't {t} get ' + rng.choice(others))
            elif r_ < 0.84:
                sc.add(f't {t} get state x')
            elif r_ < 0.9:
                sc.add(f't {t} flush')
            elif r_ < 0.96:
                sc.add(f't {t} readm')
            else:
                sc.add(f't {t} reade')
            if rng.random() < 0.1:
                sc.add(f't {t} yield')
    sc.add('endpar', 'flush', 'quiesce', 'flush', 'quiesce', 'snap end', 'drain', 'stop')
    return sc.text(), cfg, nodes, last_set, npong, nt

def view(mm, kind, eid):
    e = mm.st[kind][eid]
    if kind == 'segments':
        return (e['occupied'], tuple(sorted(e['conf'].items())), tuple(sorted(e['pc'].items())), tuple(tuple(x) for x in e['addrs']))
    return tuple(sorted((k, (tuple(sorted(v.items())) if isinstance(v, dict) else v)) for k, v in e.items() if v is not None))

def got_view(kind, q):
    if kind == 'segments':
        return (q.get('occupied'), tuple(sorted((q.get('conf') or {}).items())), tuple(sorted((q.get('pc') or {}).items())),
                tuple((a['l'], a['h'], a['type']) for a in (q.get('addrs') or [])))
    return None

def evaluate(ctx, r, cfg, nodes, last_set, npong, nt, meta):
    if ctx.generic_failures(r, meta):
        return
    if runner.outcome(r) != 'ok':
        return
    ev = r.events
    begin, ret_i = fold.session_start_index(ev)
    if ret_i is None or ev[ret_i].get('r') != 0:
        ctx.inconclusive.append('start failed')
        return
    ctx.evaluations += 1
    cb = next(i for i, e in enumerate(ev) if e.get('e') == 'mark' and e.get('m') == 'conc_begin')
    m = statemodel.Model(cfg, nodes)
    fold.fold(m, ev, begin, None, None, stop_at=cb)
    pk = fold.packets_of(ev)
    S_seq = [m.clone()]
    done_n, pushed_n = [], []
    for e in ev[cb:]:
        if e.get('e') == 'snap' and e.get('tag') == 'end':
            break               # the shutdown traffic after the final snapshot is not part of the compared state
        if e.get('e') == 'up':
            pushed_n.append(e.get('np', e['n']))
        elif e.get('e') == 'reply':
            pushed_n.append(e['n'] - 1)
        elif e.get('e') == 'rxc':
            # receiver-written entities only: commands of application threads do not touch them
            for pm in pk.get(e['pkt'], []):
                m.on_uplink(pm['addr'], pm['type'], pm['data'])
            S_seq.append(m.clone())
        elif e.get('e') == 'rxdone':
            done_n.append(e['n'])
    # (3a) getter atomicity for segments (written only by the receiver)
    gets = [e for e in ev[cb:] if e.get('e') == 'get']
    for e in gets:
        lo = sum(1 for x in done_n if x < e['n0'])
        hi = min(sum(1 for x in pushed_n if x < e['n1']), len(S_seq) - 1)
        if e['kind'] == 'segment':
            for key, q in ((k_, v_) for k_, v_ in e['r'].items() if not k_.startswith('index:')):
                sid = key.split(':', 1)[1]
                g = got_view('segments', q)
                if not any(view(S_seq[i], 'segments', sid) == g for i in range(lo, hi + 1)):
                    ctx.violation('never-existed', 'segment', f'bidib_get_segment_state({sid}) = {g} matches none of the states S{lo}..S{hi} that existed during the call (torn / half-updated)',
                                  r.scenario, r.flavour, meta)
                    return
        elif e['kind'] == 'state':
            for sg in e['state']['segments']:
                g = got_view('segments', sg)
                if not any(view(S_seq[i], 'segments', sg['id']) == g for i in range(lo, hi + 1)):
                    ctx.violation('never-existed', 'state.segments', f'bidib_get_state(): segment {sg["id"]} = {g} matches none of S{lo}..S{hi}', r.scenario, r.flavour, meta)
                    return
            for bs in e['state']['boosters']:
                ok = {0x80: 0, 0x81: 0, 0x82: 0, 0x84: 0, 0x00: 1, 0x03: 1, 0x04: 1, 0x05: 1, 0x06: 1}.get(bs['power_state'], 2)
                if bs['simple'] != ok:
                    ctx.violation('torn', 'booster', f'bidib_get_state(): booster {bs["id"]} power_state {bs["power_state"]:#x} with simple state {bs["simple"]} (written by one message)', r.scenario, r.flavour, meta)
                    return
        elif e['kind'] == 'enum':
            got = e['r'].get('boards_connected')
            if isinstance(got, dict):
                got = got.get('ids')
            cands = [[b['id'] for b in cfg['boards'] if S_seq[i].connected(b['id'])] for i in range(lo, hi + 1)]
            ctx.count('board_table_results_checked')
            if got is not None and sorted(got) not in [sorted(c_) for c_ in cands]:
                ctx.violation('never-existed', 'board-table', f'bidib_get_boards_connected() = {got} is the set of connected boards in none of the states S{lo}..S{hi} that existed during the call '
                              f'(S{lo}: {cands[0]}, S{hi}: {cands[-1]}) - a node-lost notice was applied in parts', r.scenario, r.flavour, meta)
                return
        elif e['kind'] in ('periph', 'point', 'signal', 'reverser', 'to'):
            # entities written by the receiver thread only (board accessories, peripherals, reversers, track outputs): the result must be the
            # value of the entity in one of the states that existed during the call - never a mixture of two updates, never freed memory
            kind_of = {'periph': ('peripherals',), 'point': ('points_board',), 'signal': ('signals_board',), 'reverser': ('reversers',), 'to': ('track_outputs',)}[e['kind']]
            for key, q in ((k_, v_) for k_, v_ in e['r'].items() if not k_.startswith('index:')):
                eid = key.split(':', 1)[1]
                mk = next((k_ for k_ in kind_of if eid in S_seq[0].st[k_]), None)
                if mk is None or not isinstance(q, dict):
                    continue
                fields = [f for f in S_seq[0].st[mk][eid] if f in q]
                ok = False
                for i in range(lo, hi + 1):
                    dd = []
                    statemodel._cmp(key, {f: S_seq[i].st[mk][eid][f] for f in fields}, q, dd)
                    if not dd:
                        ok = True
                        break
                ctx.count('receiver_entity_results_checked')
                if not ok:
                    ctx.violation('never-existed', mk, f'{key} = { {f: q.get(f) for f in fields} } matches the entity in none of the states S{lo}..S{hi} that existed during the call '
                                  f'(S{lo}: { {f: S_seq[lo].st[mk][eid][f] for f in fields} }, S{hi}: { {f: S_seq[hi].st[mk][eid][f] for f in fields} })', r.scenario, r.flavour, meta)
                    return
        elif e['kind'] == 'booster':
            for key, q in ((k_, v_) for k_, v_ in e['r'].items() if not k_.startswith('index:')):
                if q.get('known'):
                    ok = {0x80: 0, 0x81: 0, 0x82: 0, 0x84: 0, 0x00: 1, 0x03: 1, 0x04: 1, 0x05: 1, 0x06: 1}.get(q['power_state'], 2)
                    if q['simple'] != ok:
                        ctx.violation('torn', 'booster', f'{key}: power_state {q["power_state"]:#x} with simple state {q["simple"]}', r.scenario, r.flavour, meta)
                        return
    # (3b) every queued uplink message is returned to exactly one reader
    pongs = [bytes.fromhex(e['msg']) for e in ev[cb:] if e.get('e') == 'q' and e['q'] == 'msg' and e['msg'].endswith('5c') and len(e['msg']) == 14 and e['msg'][6:8] == '82']
    cnt = Counter(pongs)
    dup = [p for p, c in cnt.items() if c > 1]
    if dup:
        ctx.violation('returned-twice', 'queue', f'queued message {dup[0].hex()} was returned {cnt[dup[0]]} times', r.scenario, r.flavour, meta)
        return
    # the message queue is bounded (128, drop-oldest): besides the unique PONGs it receives the answers to the application threads' own requests.
    # Upper bound of its fill level from the log: +1 when a packet with a message for that queue is consumed, -1 when a read has returned one
    fill = peak = 0
    pkq = fold.packets_of(ev)
    for e in ev[cb:]:
        if e.get('e') == 'rxc':
            fill += sum(1 for pm in pkq.get(e['pkt'], []) if 'msg' in uplink.destination(pm['type'], pm['data'], False))
            peak = max(peak, fill)
        elif e.get('e') == 'q' and e['q'] == 'msg':
            fill = max(0, fill - 1)
    if peak >= 120:
        ctx.count('runs_with_possible_queue_overflow')
    elif len(cnt) != npong:
        ctx.violation('lost', 'queue', f'{npong} unique messages were queued (never more than 110 outstanding), readers received {len(cnt)}', r.scenario, r.flavour, meta)
        return
    # (4) lost updates of read-modify-write commands: one writer thread per function
    end = next((e for e in reversed(ev) if e.get('e') == 'snap' and e.get('tag') == 'end'), None)
    if end:
        gotp = {(t['id'], p['id']): p['state'] for t in end['state']['trains'] for p in (t.get('periphs') or [])}
        for f, v in last_set.items():
            if gotp.get(f) != v:
                ctx.violation('lost-update', 'train-function', f'function {f[1]} of {f[0]} was last set to {v} by its only writer thread, the final state says {gotp.get(f)} '
                              f'(another thread\'s read-modify-write of the same function group overwrote it)', r.scenario, r.flavour, meta)
                return
        # receiver-written entities: the final state is the fold of the feedback
        fin = S_seq[-1]
        for kind in RECV_KINDS:
            got = {x['id']: x for x in end['state'].get(kind, [])}
            for eid in fin.st[kind]:
                diffs = []
                statemodel._cmp(f'{kind}.{eid}', {k: v for k, v in fin.st[kind][eid].items()}, got.get(eid), diffs) if kind != 'segments' else None
                if kind == 'segments' and view(fin, 'segments', eid) != got_view('segments', got.get(eid) or {}):
                    diffs.append((f'segments.{eid}', view(fin, 'segments', eid), got_view('segments', got.get(eid) or {})))
                if diffs:
                    ctx.violation('final-state', kind, f'after the concurrent phase {diffs[0][0]} is {diffs[0][2]}, the fold of the feedback says {diffs[0][1]}', r.scenario, r.flavour, meta)
                    return
    # (5) the downlink stream is shared state too: whole packets, and per node consecutive sequence numbers in wire order
    stream = b''.join(bytes.fromhex(e['hex']) for e in ev if e.get('e') == 'tx')
    try:
        wire = [model.parse_msg(x) for p in model.strict_deframe(stream) for x in model.split_messages(p['payload'])]
    except model.FrameError as e:
        ctx.violation('framing', 'wire', f'downlink stream of the concurrent session does not decode: {e}', r.scenario, r.flavour, meta)
        return
    bad, _ = seq_scan(wire, True)
    if bad:
        ctx.violation('wire-' + bad[0], 'seq', bad[1] + f'; {nt} application threads', r.scenario, r.flavour, meta)
        return
    ctx.count('wire_messages_checked', len(wire))
    ed = next((e for e in ev if e.get('e') == 'edges'), {})
    ctx.count('contract_checks', ed.get('contract_checks', 0))
    ctx.count('lock_operations', ed.get('lock_ops', 0))
    ct = next((e for e in ev if e.get('e') == 'contracts'), {})
    for name in (ct.get('hits') or {}):
        ctx.add_set('contract_functions_reached', name)
    ctx.count('getter_results_checked', len(gets))
    ctx.count('api_calls', sum(1 for e in ev[cb:] if e.get('e') in ('ret', 'get', 'q', 'flushed')))
    ctx.add_set('schedules', hashlib.sha1(repr([(e.get('t'), e.get('e')) for e in ev[cb:] if e.get('e') in ('ret', 'get', 'rxc')]).encode()).hexdigest())
    if len(gets) > 5 and ed.get('contract_checks', 0) > 100:
        ctx.nontrivial.add(meta['digest'])

def gen_lowlevel(ctx, k):
    """every public low-level send function (with and without data, all sizes) called by 2-8 threads at once in debug mode: the race detector
    sees any scratch state a function keeps outside its own stack (the framing / numbering of what they emit is C01's / C05's business)"""
    rng = ctx.sub_rng('c10ll', k)
    nt = rng.choice([2, 3, 4, 8])
    sc = Scn(seed=ctx.seed * 131 + k, perturb=rng.choice([0, 200, 500]), watchdog=180000)
    sc.add('bus mode silent', 'bus brackets 0', 'debug 1', f'start @null {rng.choice([0, 1])}', f'par {nt}')
    names = [n for n, r_ in sorted(S.rows().items()) if r_['data'] is not None and n not in gen.EXCLUDE]
    hot = [names[(6 * k + j) % len(names)] for j in range(6)]          # 12 scenarios walk through all functions
    for t in range(nt):
        for i in range(rng.randrange(40, 90)):
            nm, ad, a, data = gen.random_call(rng, (1 + t, rng.randrange(0, 3), 0), names=([hot[(i // 3) % 6]] if rng.random() < 0.85 else names), hot=0.3, long_bias=0.3)
            sc.add(f't {t} ' + call(nm, *S.tokens(nm, ad, a)))
            if rng.random() < 0.05:
                sc.add(f't {t} flush')
    sc.add('endpar', 'flush', 'quiesce', 'stop')
    return sc.text(), nt

def run(ctx):
    ctx.rule = ('normal-mode sessions (generated config, two trains with eight functions each, a track output / booster, segments), auto-flush 1-5 ms, 2-16 application threads each '
                'running 60-160 random thread-safe calls (train-function commands with one writer per function, low-level sends, pings, segment/booster/train/whole-state getters, '
                'flush, both read functions) against a feeder delivering 60-200 state-changing messages and unique PONGs; perturbation 0-60% at every lock operation; tsan, asan and '
                'mon flavours; reduced scenarios under valgrind helgrind (sees inside glib). non-trivial = distinct schedule with >5 checked getter results and >100 contract checks')
    ctx.assumptions = ['TSan suppresses only the four volatile lifecycle flags (tsan.supp)', 'glib is not instrumented: races inside containers are covered by the contract monitor only',
                       'bidib_send_sys_reset is excluded (README)']
    jobs = []
    import os
    only = os.environ.get('VERIF_ONLY', '')
    for k in range(ctx.n(36, 1500) if only != 'directed' else 0):
        fl = ('tsan', 'asan', 'mon')[k % 3]
        jobs.append((fl,) + gen_scenario(ctx, k, fl))
    for k in range(ctx.n(30, 1200) if only != 'stress' else 0):
        jobs.append((('mon', 'asan', 'tsan')[k % 3],) + gen_directed(ctx, k) + ('directed',))
    for k in range(ctx.n(8, 300) if only in ('', 'directed', 'notice') else 0):
        g = gen_notice_sweep(ctx, k)
        if g:
            jobs.append((('mon', 'asan')[k % 2],) + g + ('directed',))
    for fl in ('tsan', 'asan', 'mon'):
        js = [j for j in jobs if j[0] == fl]
        res = runner.run_many(fl, [(i, j[1]) for i, j in enumerate(js)], timeout=900)
        for j, r in zip(js, res):
            meta = {'digest': hashlib.sha1(j[1].encode()).hexdigest()[:12], 'flavour': fl, 'threads': j[6]}
            evaluate(ctx, r, j[2], j[3], j[4], j[5], j[6], meta)
            ctx.count('runs_' + fl)
            if len(j) > 7:
                sweep.pause_stats(ctx, r.events, 'directed')
    if only in ('', 'stress'):
        lj = [gen_lowlevel(ctx, k) for k in range(ctx.n(12, 400))]
        lres = runner.run_many('tsan', [(i, j[0]) for i, j in enumerate(lj)], timeout=600)
        for j, r in zip(lj, lres):
            meta = {'digest': hashlib.sha1(j[0].encode()).hexdigest()[:12], 'flavour': 'tsan', 'threads': j[1], 'kind': 'lowlevel-all'}
            if not ctx.generic_failures(r, meta) and runner.outcome(r) == 'ok':
                ctx.evaluations += 1
                ctx.count('lowlevel_all_functions_runs')
                ctx.count('api_calls', sum(1 for e in r.events if e.get('e') == 'ret'))
    # (6) second opinion that also sees inside the uninstrumented glib: valgrind --tool=helgrind on reduced scenarios (plain flavour)
    if only in ('', 'helgrind'):
        hj = [gen_scenario(ctx, 7000 + k, 'plain', small=True) for k in range(ctx.n(3, 60))]
        hres = runner.run_many('plain', [(i, j[0]) for i, j in enumerate(hj)], timeout=1800, valgrind='helgrind')
        for j, r in zip(hj, hres):
            meta = {'digest': hashlib.sha1(j[0].encode()).hexdigest()[:12], 'flavour': 'plain+helgrind', 'threads': j[5]}
            if runner.outcome(r) != 'ok':
                ctx.inconclusive.append(f'helgrind run ended {runner.outcome(r)}')
                continue
            for cls, site, text in runner.helgrind_reports(r.san):
                ctx.violation(cls, site, text.split('\n')[0][:200] + f' ({site})', j[0], 'plain', meta, text)
            ctx.count('runs_helgrind')
            ctx.count('helgrind_api_calls', sum(1 for e in r.events if e.get('e') in ('ret', 'get', 'q', 'flushed')))
    if jobs:
        ctx.sample({'threads': jobs[0][6], 'worker_lines': [l for l in jobs[0][1].split('\n') if l.startswith('t 1 ')][:10]})
    return ctx.finish(min_eval=12, min_nontrivial=8)
