"""C02 - uplink decoding: good packets delivered in order exactly once, bad-CRC packets dropped, garbage does not
disturb later packets; the receiver decodes the library's own sender output to the identical message list.
Oracle: reference decoder applied to the very same (corrupted) byte stream; queue contents via bidib_read_message in debug mode."""
import hashlib

from .. import gen, model, runner, spec_lowlevel as S
from ..scen import Scn, call, raw, up
from .C01 import bus_lines, ADDRS

STALL = 0x8E

def rand_msg(rng, uid):
    depth = rng.choice([0, 0, 1, 1, 2, 3])
    addr = tuple([rng.randrange(1, 256) for _ in range(depth)] + [0] * (3 - depth))
    t = rng.randrange(256)
    while t == STALL:
        t = rng.randrange(256)
    n = rng.choice([0, 1, 2, 3, 5, 9, 9, 16, 30])
    data = bytearray(gen.rbyte(rng, 0.45) for _ in range(n))
    # unique id so that histories are unambiguous
    data += bytes([uid & 0xFF, (uid >> 8) & 0xFF])
    seq = rng.choice([0, rng.randrange(256), rng.randrange(1, 256)])
    return model.build_msg(addr, seq, t, bytes(data))

def corrupt(rng, framed):
    b = bytearray(framed)
    kind = rng.choice(['flip', 'drop', 'insert', 'extra_delim', 'dup_delim', 'truncate', 'drop_start', 'esc_break', 'lone_escape', 'noise_gap', 'trailing_escape'])
    if kind == 'flip' and len(b) > 2:
        i = rng.randrange(1, len(b) - 1)
        b[i] ^= 1 << rng.randrange(8)
    elif kind == 'drop' and len(b) > 3:
        del b[rng.randrange(1, len(b) - 1)]
    elif kind == 'insert':
        b.insert(rng.randrange(1, len(b)), rng.randrange(256))
    elif kind == 'extra_delim':
        b.insert(rng.randrange(1, len(b)), 0xFE)
    elif kind == 'dup_delim':
        b = bytearray(b'\xfe' * rng.randrange(1, 4)) + b + bytearray(b'\xfe' * rng.randrange(1, 4))
    elif kind == 'truncate' and len(b) > 3:
        b = b[:rng.randrange(2, len(b) - 1)]
    elif kind == 'drop_start':
        b = b[1:]
    elif kind == 'esc_break':
        b.insert(rng.randrange(1, len(b)), 0xFD)
    elif kind == 'lone_escape':
        # a stray escape byte as the only byte between two delimiters, then the (good) packet
        b = bytearray(rng.choice([b'\xfe\xfd', b'\xfd', b'\xfe\xfd\xfe', b'\xfe\xfd\xfd'])) + b
    elif kind == 'noise_gap':
        # line noise between two packets: a few arbitrary bytes in front of the (good) packet
        b = bytearray(gen.rbyte(rng, 0.5) for _ in range(rng.randrange(1, 5))) + b
    elif kind == 'trailing_escape':
        # the packet is cut right after an escape byte (dangling escape in front of the closing delimiter / the next packet)
        cut = rng.randrange(1, len(b) - 1)
        b = b[:cut] + bytearray(b'\xfd') + (bytearray(b'\xfe') if rng.random() < 0.5 else bytearray())
    return bytes(b), kind

def chunked(rng, stream, style):
    items = []
    for i, x in enumerate(stream):
        if style == 'bytewise':
            items.append(None)
        elif style == 'random' and rng.random() < 0.15:
            items.extend([None] * rng.randrange(1, 3))
        elif style == 'after_escape' and i > 0 and stream[i - 1] == 0xFD:
            items.append(None)
        items.append(x)
    if style == 'long_pause':
        # the peer falls silent in the middle of packets for a long time (hundreds of polls, i.e. seconds) and then goes on with the rest
        inside = [i for i in range(1, len(items)) if items[i] != 0xFE and items[i - 1] != 0xFE and items[i] is not None]
        for i in sorted(rng.sample(inside, min(len(inside), rng.randrange(1, 4))), reverse=True):
            items.insert(i, ('gap', rng.choice([250, 400, 1000])))
    return items

def gen_stream(ctx, k):
    rng = ctx.sub_rng('c02', k)
    npk = rng.randrange(1, 40)
    uid = 0
    parts = []           # (bytes, corrupted?)
    ncorr = 0
    big = rng.random() < 0.3          # streams with packets up to the largest one the receiver has to take (255 payload bytes + CRC)
    for p in range(npk):
        nm = rng.randrange(1, 7)
        payload = b''
        limit = 60
        exact = None
        if big and rng.random() < 0.5:
            limit = rng.choice([255, 255, 254, 200, 128])
            nm = 60
            exact = limit if rng.random() < 0.6 else None
        for _ in range(nm):
            m = rand_msg(rng, uid)
            uid += 1
            if len(payload) + len(m) > limit - (4 if exact else 0):
                break
            payload += m
        if exact is not None and 4 <= exact - len(payload) <= 128:
            # a last message that fills the packet to exactly `exact` bytes
            fl = exact - len(payload)
            t_ = rng.choice([x for x in range(256) if x != STALL])
            payload += bytes([fl - 1, 0, rng.randrange(256), t_]) + bytes(gen.rbyte(rng, 0.2) for _ in range(fl - 4))
            uid += 1
        if not payload:
            payload = rand_msg(rng, uid)[:60]
            uid += 1
        if rng.random() < 0.15 and payload:
            # a node repeats itself: the same message (same sequence number, same bytes) again - behind the first one in the same packet, or as a
            # packet of its own right after this one. Each copy is a received message
            first = model.split_messages(payload)[0]
            if rng.random() < 0.5 and len(payload) + len(first) <= limit:
                payload = first + payload
            else:
                parts.append((model.frame(first), None))
        fr = model.frame(payload)
        if rng.random() < 0.35:
            fr, kind = corrupt(rng, fr)
            ncorr += 1
            parts.append((fr, kind))
        else:
            parts.append((fr, None))
    # always finish with a known-good packet: corruption must not disturb later packets
    parts.append((model.frame(rand_msg(rng, 0xFFFF)), None))
    if big:
        # a packet of the largest size whose closing delimiter is lost: what follows (noise, or the next packet) is read as part of it. The
        # receiver has 256 CRC-consistent bytes in its buffer at some point - and a packet that is longer and whose CRC is wrong at its end
        for _ in range(rng.randrange(1, 4)):
            pl = b''
            while 255 - len(pl) > 128:
                fl = rng.randrange(8, 100)
                pl += bytes([fl - 1, 0, rng.randrange(256), rng.choice([x for x in range(256) if x != STALL])]) + bytes(gen.rbyte(rng, 0.1) for _ in range(fl - 4))
            fl = 255 - len(pl)
            pl += bytes([fl - 1, 0, rng.randrange(256), rng.choice([x for x in range(256) if x != STALL])]) + bytes(gen.rbyte(rng, 0.1) for _ in range(fl - 4))
            fr = model.frame(pl)
            tail = bytes(rng.choice([x for x in range(256) if x not in (0xFE, 0xFD)]) for _ in range(rng.randrange(1, 30))) + b'\xfe' if rng.random() < 0.5 else model.frame(rand_msg(rng, uid))[1:]
            uid += 1
            parts.insert(rng.randrange(len(parts)), (fr[:-1] + tail, 'overlong'))
            ncorr += 1
    # delimiters between packets: one shared delimiter is as legal as two; a LOST shared delimiter merges two packets into one whose CRC is
    # (almost always) wrong - both are gone, nothing of either may be processed, later packets are untouched
    for i in range(len(parts) - 2):
        fr, kind = parts[i]
        nx, kind2 = parts[i + 1]
        if kind in ('flip', 'insert', 'drop', 'esc_break', 'overlong') and kind2 is None and fr[-1:] == b'\xfe' and nx[:1] == b'\xfe' and rng.random() < 0.3:
            parts[i] = (fr[:-1], kind)                           # a damaged packet and the good one behind it share their delimiter
            continue
        if kind is None and kind2 is None and fr[-1:] == b'\xfe' and nx[:1] == b'\xfe':
            r_ = rng.random()
            if r_ < 0.2:
                parts[i] = (fr[:-1], None)                       # shared delimiter
            elif r_ < (0.45 if big else 0.25):
                parts[i] = (fr[:-1], 'merged')
                parts[i + 1] = (nx[1:], 'merged')
                ncorr += 1
    stream = b''.join(p[0] for p in parts)
    style = rng.choice(['all', 'bytewise', 'random', 'after_escape', 'long_pause'])
    return stream, style, parts, ncorr

def reference_messages(stream):
    """-> list of message bytes the receiver must deliver, or None when the stream contains a CRC-valid packet
    whose payload is not a whole number of messages (outside C02's statement, belongs to C12)"""
    out = []
    for payload, s, e in model.lenient_deframe(stream):
        if payload is None:
            continue
        if len(payload) > 255:
            return None           # a CRC-valid packet longer than any BiDiB packet (1 of 256 merged ones): outside the statement, C12's concern
        try:
            ms = model.split_messages(payload)
            for m in ms:
                pm = model.parse_msg(m)
                if pm['type'] == STALL:
                    return None
            out.extend(ms)
        except model.FrameError:
            return None
    return out

def scenario_for_stream(ctx, k, stream, style):
    rng = ctx.sub_rng('c02chunk', k)
    sc = Scn(seed=ctx.seed * 31 + k, watchdog=120000)
    sc.add('bus brackets 0', 'debug 1', 'start @null 0')
    # feed in slices, draining the (bounded) queue after each slice
    pos = 0
    packets = model.lenient_deframe(stream)
    # slice boundaries at packet ends so that at most ~60 messages are pending
    cuts = []
    cnt = 0
    for (payload, s, e) in packets:
        # the user queue keeps 128 messages: count what a packet really carries (a packet of the largest size has up to 63 messages)
        try:
            cnt += max(6, len(model.split_messages(payload))) if payload is not None else 6
        except model.FrameError:
            cnt += 6
        if cnt >= 60:
            cuts.append(e)
            cnt = 0
    cuts.append(len(stream))
    for c in cuts:
        if c <= pos:
            continue
        sc.add(raw(chunked(rng, stream[pos:c], style)), 'quiesce', 'drain')
        pos = c
    sc.add('mark done', 'stop')
    return sc.text()

def evaluate(ctx, r, expect, meta):
    if ctx.generic_failures(r, meta):
        return
    if runner.outcome(r) != 'ok':
        return
    got = [bytes.fromhex(e['msg']) for e in r.events if e.get('e') == 'q' and e.get('q') == 'msg']
    err = [e for e in r.events if e.get('e') == 'q' and e.get('q') != 'msg']
    ctx.evaluations += 1
    ctx.count('messages_expected', len(expect))
    if err:
        ctx.violation('wrong-queue', meta['kind'], f'debug mode delivered {len(err)} messages to the error queue', r.scenario, r.flavour, meta)
        return
    if got != expect:
        # classify
        i = 0
        while i < min(len(got), len(expect)) and got[i] == expect[i]:
            i += 1
        if len(got) < len(expect) and all(g in expect for g in got):
            cls = 'good-packet-lost'
        elif len(got) > len(expect):
            cls = 'bad-packet-delivered-or-duplicate'
        else:
            cls = 'mismatch'
        ctx.violation(cls, meta['kind'], f'delivered {len(got)} messages, reference decoder says {len(expect)}; first difference at #{i}: '
                      f'got {got[i].hex() if i < len(got) else None} expected {expect[i].hex() if i < len(expect) else None}',
                      r.scenario, r.flavour, meta)
        return
    if meta.get('ncorr') and meta.get('good_after_bad'):
        ctx.nontrivial.add(meta['digest'])
    elif meta['kind'] == 'roundtrip' and expect:
        ctx.nontrivial.add(meta['digest'])

def run(ctx):
    ctx.rule = ('streams of 1-40 packets x 1-6 messages (any type code but MSG_STALL, address depth 0-3, hot bytes FE/FD, unique ids, arbitrary '
                'sequence numbers), ~35% of packets corrupted (bit flip, dropped/inserted byte, extra/duplicated delimiters, truncation, '
                'stray escape), four chunkings of the read polls; plus normal-mode histories (multi-message packets from senders on all address levels, judged through their state effect) and the round trip of the library\'s own sender output. non-trivial = '
                'distinct stream with a corrupted packet followed by a good one (or a non-empty round trip)')
    ctx.assumptions = ['reference receiver decoder in vlib/model.py decides which packets are good', 'packets <= 255 bytes (longer ones are C12)',
                       'low-level debug mode exposes every decoded message through bidib_read_message']
    jobs = []
    n = ctx.n(600, 30000)
    skipped = 0
    for k in range(n):
        stream, style, parts, ncorr = gen_stream(ctx, k)
        exp = reference_messages(stream)
        if exp is None:
            skipped += 1
            continue
        text = scenario_for_stream(ctx, k, stream, style)
        meta = {'kind': 'corrupt-' + style, 'ncorr': ncorr, 'good_after_bad': ncorr > 0, 'digest': hashlib.sha1(stream).hexdigest()[:12],
                'corruptions': [p[1] for p in parts if p[1]]}
        for c in meta['corruptions']:
            ctx.count('corrupt_' + c)
        jobs.append((text, exp, meta))
    ctx.cov['streams_skipped_crc_valid_but_malformed'] = skipped
    res = runner.run_many('asan', [(i, j[0]) for i, j in enumerate(jobs)], timeout=300)
    for j, r in zip(jobs, res):
        evaluate(ctx, r, j[1], j[2])
    if jobs:
        ctx.sample({'kind': jobs[0][2]['kind'], 'corruptions': jobs[0][2]['corruptions'], 'expected_messages': len(jobs[0][1]),
                    'scenario_head': jobs[0][0].split('\n')[3:6]})
    # ---- normal mode: the decoded sender address / type / data of every message is observed through its state effect (reference fold of C07):
    # packets bundling occupancy and address reports of boards on ALL address levels (deep sender first, shallower ones behind it, and the
    # other way round), arbitrary sequence numbers; a packet with a broken CRC has no effect
    from . import C07, C08
    from .. import cfggen, statemodel
    nj = []
    for k in range(ctx.n(60, 3000)):
        rng = ctx.sub_rng('normal', k)
        cfg = C08.gen_cfg(rng)
        for b in cfg['boards']:
            if rng.random() < 0.6:
                b['uid'] = bytes([b['uid'][0] | 0x80]) + b['uid'][1:]        # interfaces, so that boards sit on the second and third level
        d = cfggen.write_config(cfg, C07.cfg_dir(f'c02n_{k}'))
        nodes = cfggen.assign_tree(rng, cfg, absent_prob=0.0)
        m = statemodel.Model(cfg, nodes)
        sc = Scn(seed=ctx.seed * 37 + k, watchdog=240000)
        sc.add(*cfggen.bus_lines(cfg, nodes), 'bus brackets 1', f'start {d} 0', 'quiesce', 'snap s0')
        for i in range(rng.randrange(10, 50)):
            msgs = []
            for _ in range(rng.choice([1, 2, 3, 4, 4])):
                g = C08.gen_bm(rng, m, cfg)
                if g:
                    msgs.append((g[0], model.build_msg(g[0], rng.choice([0, rng.randrange(256)]), g[1], g[2])))
            if not msgs:
                break
            order = rng.random()
            if order < 0.5:
                msgs.sort(key=lambda x: -S.depth(x[0]))                      # deepest sender first
            elif order < 0.7:
                msgs.sort(key=lambda x: S.depth(x[0]))
            sc.add(up(*[x[1] for x in msgs]), 'quiesce')
            if rng.random() < 0.5:
                sc.add(f'snap s{i + 1}')
        sc.add('snap end', 'stop')
        nj.append((sc.text(), cfg, nodes))
    nres = runner.run_many('asan', [(i, j[0]) for i, j in enumerate(nj)], timeout=600)
    for j, r in zip(nj, nres):
        C07.evaluate(ctx, r, j[1], j[2], {}, {'kind': 'normal-mode', 'digest': hashlib.sha1(j[0].encode()).hexdigest()[:12]})
        ctx.count('normal_mode_histories')
        ctx.count('normal_mode_max_depth_3', int(any(a[2] != 0 for a, _u in j[2])))
    # ---- round trip: phase 1 produce downlink transcripts, phase 2 feed them to the receiver
    nrt = ctx.n(60, 2000)
    p1 = []
    for k in range(nrt):
        rng = ctx.sub_rng('rt', k)
        sc = Scn(seed=ctx.seed + k, watchdog=120000)
        big = (k % 3 == 2)
        if big:
            # a normal session whose interface announces the largest capacity: long bursts of zero-response messages full of bytes that need
            # escaping make packets whose escaped image is longer than the sender's staging buffer - followed by ordinary packets
            from .C01 import normal_start_line
            sc.add(*bus_lines([(0, 0, 0)]), f'bus cap {rng.choice([255, 255, 200, 160])}', normal_start_line(), 'quiesce')
        else:
            sc.add(*bus_lines(), 'debug 1', 'start @null 0')
        zr = gen.zero_response_names()
        for i in range(rng.randrange(3, 40) if not big else rng.randrange(30, 90)):
            if big and rng.random() < 0.6:
                a = {'mnum': 8 * rng.randrange(16), 'size': 128, 'data': bytes(rng.choice([0xFE, 0xFD, 0xFE, rng.randrange(256)]) for _ in range(16))}
                name, ad = 'bidib_send_bm_mirror_multiple', (0, 0, 0)
            elif big:
                name, ad, a, data = gen.random_call(rng, (0, 0, 0), names=zr, hot=0.9, long_bias=0.3)
            else:
                name, ad, a, data = gen.random_call(rng, rng.choice(ADDRS), hot=0.6, long_bias=0.2)
            sc.add(call(name, *S.tokens(name, ad, a)))
            if rng.random() < (0.3 if k % 2 else 0.03):      # odd: frequent flushes; even: long bursts, packets are closed because the next message does not fit
                sc.add('flush', 'quiesce')
        sc.add('flush', 'quiesce', 'flush', 'quiesce', 'mark done', 'stop')
        p1.append(sc.text())
    r1 = runner.run_many('asan', list(enumerate(p1)), timeout=300)
    p2 = []
    for k, r in enumerate(r1):
        if ctx.generic_failures(r, {'kind': 'roundtrip-phase1'}) or runner.outcome(r) != 'ok':
            continue
        stream = b''.join(bytes.fromhex(e['hex']) for e in r.events if e.get('e') == 'tx')
        # the round-trip clause is about the messages that were SENT: the sender's output must decode strictly (every packet with a good CRC,
        # whole messages) - a packet the library's own receiver would have to discard is a lost message sequence, not a shorter expectation
        try:
            strict = [x for p_ in model.strict_deframe(stream) for x in model.split_messages(p_['payload'])]
        except model.FrameError as e:
            ctx.violation('sender-output-not-decodable', 'roundtrip', f'the receiver cannot decode what the sender emitted: {e}', r.scenario, 'asan', {'kind': 'roundtrip-phase1'})
            continue
        nsub = sum(1 for e in r.events if e.get('e') == 'ret' and str(e.get('f', '')).startswith('bidib_send_'))
        ctx.count('roundtrip_calls_submitted', nsub)
        # downlink messages are requests (type < 0x80): none is MSG_STALL
        exp = reference_messages(stream)
        if exp is not None and len(exp) != len(strict):
            exp = None
        if exp is None:
            ctx.violation('sender-output-malformed', 'roundtrip', 'reference decoder cannot split the library\'s own output', r.scenario, 'asan')
            continue
        # keep the slices small enough for the 128-entry queue
        text = scenario_for_stream(ctx, 100000 + k, stream, 'random')
        p2.append((text, exp, {'kind': 'roundtrip', 'digest': hashlib.sha1(stream).hexdigest()[:12]}))
    r2 = runner.run_many('asan', [(i, j[0]) for i, j in enumerate(p2)], timeout=300)
    for j, r in zip(p2, r2):
        evaluate(ctx, r, j[1], j[2])
        ctx.count('roundtrip_messages', len(j[1]))
    return ctx.finish(min_eval=50, min_nontrivial=20)
