"""C06 - each uplink message has exactly one destination; user queues FIFO, bounded (128, drop-oldest), once-only.
Oracle: destination table (README + statement) vs. where each fed message is found (message/error/intern queue or none);
queue model for the bound; exactly-once over concurrent readers (ASan double-free / LSan leak for ownership)."""
import hashlib
from collections import Counter

from .. import model, runner, uplink
from ..scen import Scn, up
from .C01 import TESTCFG

BOARD1_UID = 'da000d680001ee'

def start_normal(sc, fi=0):
    sc.add('bus mode answer', 'bus brackets 0', f'bus node 0.0.0 {BOARD1_UID}', 'bus node 5.0.0 0500aabbccdd05', f'start {TESTCFG} {fi}')

def start_debug(sc, fi=0):
    sc.add('bus mode answer', 'bus brackets 0', f'bus node 0.0.0 {BOARD1_UID}', 'bus node 5.0.0 0500aabbccdd05', 'debug 1', f'start @null {fi}')

def gen_routing(ctx, k, debug):
    rng = ctx.sub_rng('route', k, debug)
    sc = Scn(seed=ctx.seed * 13 + k, watchdog=180000)
    (start_debug if debug else start_normal)(sc)
    sc.add('drain intern')
    msgs = []
    names = {model.C(n): n for n in uplink.KNOWN_UP}
    types = list(range(256))
    rng.shuffle(types)
    for t in types:
        variants = [None]
        n = names.get(t)
        if n in uplink.HAS_ERROR_VARIANT:
            variants = ['ok', 'error']
        for v in variants:
            if t == model.C('MSG_STALL'):
                data = b'\x00'
            elif n:
                data = uplink.payload(rng, n, v)
            else:
                data = bytes(uplink.rb(rng) for _ in range(rng.randrange(0, 9)))
            addr = rng.choice([(0, 0, 0), (0, 0, 0), (5, 0, 0), (5, 6, 0), (5, 6, 7), (9, 200, 144)])      # senders on every address level
            if n in ('MSG_NODE_LOST', 'MSG_NODE_NEW') and bytes(data[2:9]).hex() == BOARD1_UID:
                continue
            m = model.build_msg(addr, 0, t, data)
            msgs.append((m, t, data))
            pre = []
            if not debug and rng.random() < 0.3:
                # the same packet carries, in front of the message under test, a message that is too short for its (state-tracked) type: that one
                # is ignored, the messages behind it are received messages like any other
                tn, full = rng.choice([('MSG_CS_DRIVE_ACK', 3), ('MSG_BM_CONFIDENCE', 3), ('MSG_BM_OCC', 1), ('MSG_LC_STAT', 3), ('MSG_BOOST_STAT', 1), ('MSG_BM_SPEED', 4),
                                       ('MSG_CS_STATE', 1), ('MSG_ACCESSORY_STATE', 5)])
                pre = [model.build_msg(rng.choice([(0, 0, 0), (5, 0, 0)]), 0, model.C(tn), bytes(rng.randrange(256) for _ in range(rng.randrange(0, full))))]
            if rng.random() < 0.3:
                # fed byte-wise with the read callback reporting "nothing available" after every escape byte (and at random other places):
                # how the bytes arrive must not decide what happens to the message. Sequence numbers / data that need escaping included
                if rng.random() < 0.5:
                    m = model.build_msg(addr, rng.choice([253, 254, 0]), t, data)
                    msgs[-1] = (m, t, data)
                fr = model.frame(b''.join(pre) + m)
                items = []
                for i_, x in enumerate(fr):
                    items.append(x)
                    if x == 0xFD or rng.random() < 0.05:
                        items.append(None)
                from ..scen import raw
                sc.add(f'mark c{len(msgs) - 1}', raw(items), 'quiesce', 'drain intern')
                continue
            sc.add(f'mark c{len(msgs) - 1}', up(*pre, m), 'quiesce', 'drain intern')
    sc.add('mark cend', 'stop')
    return sc.text(), msgs

def eval_routing(ctx, r, msgs, debug, meta):
    if ctx.generic_failures(r, meta):
        return
    if runner.outcome(r) != 'ok':
        return
    from ..batch import split_by_marks
    seen = split_by_marks(r.events)
    for i, (m, t, data) in enumerate(msgs):
        evs = seen.get(i)
        if evs is None:
            ctx.inconclusive.append('case not reached')
            return
        where = [(e['q'], bytes.fromhex(e['msg'])) for e in evs if e.get('e') == 'q']
        mine = [q for (q, b) in where if b == m]
        foreign = [(q, b) for (q, b) in where if b != m]
        ok = uplink.destination(t, data, debug)
        ctx.evaluations += 1
        tname = model.name_of(t)
        if len(mine) > 1:
            ctx.violation('two-destinations', tname, f'type {t:#x} ({tname}) data {data.hex()} delivered to {mine}', r.scenario, r.flavour, meta)
            continue
        got = {'msg': 'msg', 'err': 'err', 'int': 'int'}[mine[0]] if mine else 'none'
        if got not in ok:
            ctx.violation('wrong-destination', tname, f'type {t:#x} ({tname}) data {data.hex()} {"debug" if debug else "normal"} mode: found in {got}, allowed {sorted(ok)}',
                          r.scenario, r.flavour, meta)
            continue
        for (q, b) in foreign:
            # anything else in a user queue must be a byte-exact copy of something the bus really sent (replies of the simulated bus)
            if not any(bytes.fromhex(e['msg']) == b for e in r.events if e.get('e') == 'reply'):
                ctx.violation('altered-bytes', tname, f'queue {q} returned {b.hex()} which nobody sent (fed {m.hex()})', r.scenario, r.flavour, meta)
        ctx.nontrivial.add((t, got, debug, 'err' if (len(data) > 3 and data[3] == 0x80) else ''))
        ctx.count('routed_' + got)

def gen_bound(ctx, k):
    rng = ctx.sub_rng('bound', k)
    n = rng.choice([1, 126, 127, 128, 129, 130, 131, 200, 256, 300])
    mode = rng.choice(['msg-debug', 'msg-normal', 'err-normal'])
    sc = Scn(seed=ctx.seed * 17 + k, watchdog=180000)
    if mode == 'msg-debug':
        start_debug(sc)
    else:
        start_normal(sc)
    sc.add('drain intern')
    msgs = []
    t = model.C('MSG_NODE_NA') if mode == 'err-normal' else rng.choice([model.C('MSG_SYS_PONG'), model.C('MSG_LC_KEY'), 0x9F])
    per_packet = rng.choice([1, 1, 3, 6])
    batch = []
    for i in range(n):
        m = model.build_msg((5, 0, 0) if i % 2 else (0, 0, 0), 0, t, bytes([i & 0xFF, i >> 8, 0x55][:1 if t == model.C('MSG_NODE_NA') else 3]))
        if t == model.C('MSG_NODE_NA'):
            m = model.build_msg((5, 0, 0) if i % 2 else (0, 0, 0), i % 255 + 1 if False else 0, t, bytes([i & 0xFF]))
            m = model.build_msg((5 if i % 2 else 0, 0, 0), 0, t, bytes([i & 0xFF]))
        msgs.append(m)
        batch.append(m)
        if len(batch) == per_packet:
            sc.add(up(*batch))
            batch = []
    if batch:
        sc.add(up(*batch))
    sc.add('quiesce', 'mark c0', 'drain', 'mark cend', 'stop')
    return sc.text(), msgs, mode, n

def eval_bound(ctx, r, msgs, mode, n, meta):
    if ctx.generic_failures(r, meta):
        return
    if runner.outcome(r) != 'ok':
        return
    q = 'err' if mode == 'err-normal' else 'msg'
    from ..batch import split_by_marks
    evs = split_by_marks(r.events).get(0, [])
    got = [bytes.fromhex(e['msg']) for e in evs if e.get('e') == 'q' and e['q'] == q]
    exp = msgs[-model.QUEUE_BOUND:]
    ctx.evaluations += 1
    if len(got) != len(exp):
        ctx.violation('bound', mode, f'{n} messages queued unread: queue returned {len(got)}, expected {len(exp)} (bound 128, drop oldest)', r.scenario, r.flavour, meta)
        return
    if got != exp:
        i = next(i for i in range(len(got)) if got[i] != exp[i])
        cls = 'drop-newest-or-order' if set(got) == set(msgs[:len(got)]) or got[0] == msgs[0] else 'fifo-order'
        ctx.violation(cls, mode, f'{n} queued: read #{i} is {got[i].hex()}, expected {exp[i].hex()}', r.scenario, r.flavour, meta)
        return
    if n >= 126:
        ctx.nontrivial.add(('bound', mode, n))

def gen_startup(ctx, k):
    """messages for the user queues that arrive DURING the start-up dialogue (after the library's own reset of queues and tables, i.e. once the
    node table is being read), with the node table possibly changing during enumeration: they are received messages like any other and
    must be waiting in their queue, once, when start returns"""
    rng = ctx.sub_rng('startup', k)
    sc = Scn(seed=ctx.seed * 23 + k, watchdog=180000)
    sc.add('bus mode answer', 'bus brackets 0', f'bus node 0.0.0 {BOARD1_UID}')
    for i in range(rng.randrange(1, 5)):
        sc.add(f'bus node {5 + i}.0.0 0500aabbccdd{5 + i:02x}')
    if rng.random() < 0.6:
        sc.add(f'bus tabchange {rng.randrange(0, 4)}')
    exp = {'msg': [], 'err': []}
    GETNEXT, FEATSET, PKTCAP = model.C('MSG_NODETAB_GETNEXT'), model.C('MSG_FEATURE_SET'), model.C('MSG_GET_PKT_CAPACITY')
    for i in range(rng.randrange(1, 6)):
        trig, nth = rng.choice([(GETNEXT, rng.randrange(1, 4)), (GETNEXT, 1), (PKTCAP, 1)])
        if rng.random() < 0.6:
            m = model.build_msg((0, 0, 0), 0, model.C('MSG_SYS_PONG'), bytes([0xA0 + i, k & 0xFF, 0x5D]))
            q = 'msg'
        else:
            m = model.build_msg((0, 0, 0), 0, model.C('MSG_NODE_NA'), bytes([0xE0 + i]))
            q = 'err'
        exp[q].append((m, trig, nth))
        sc.add(f'bus inject {trig:02x} {nth} {m.hex()}')
    sc.add(f'start {TESTCFG} 0', 'quiesce', 'mark c0', 'drain', 'mark cend', 'stop')
    return sc.text(), exp

def eval_startup(ctx, r, exp, meta):
    if ctx.generic_failures(r, meta):
        return
    if runner.outcome(r) != 'ok':
        return
    ret = next((e for e in r.events if e.get('e') == 'ret' and e.get('f') == 'bidib_start_pointer'), None)
    if not ret or ret.get('r') != 0:
        ctx.inconclusive.append('startup scenario: start failed')
        return
    injected = [bytes.fromhex(e['payload']) for e in r.events if e.get('e') == 'up' and e.get('injected')]
    from ..batch import split_by_marks
    evs = split_by_marks(r.events).get(0, [])
    ctx.evaluations += 1
    for q in ('msg', 'err'):
        got = [bytes.fromhex(e['msg']) for e in evs if e.get('e') == 'q' and e['q'] == q]
        want = [m for (m, _t, _n) in exp[q] if m in injected]          # only what was really delivered (a trigger may not have been reached)
        for m in want:
            c = got.count(m)
            if c != 1:
                ctx.violation('lost-during-startup' if c == 0 else 'returned-twice', q, f'message {m.hex()} was received while the node table was being read (after the library\'s own '
                              f'queue reset); the {q} queue returned it {c} times after start (queue far below its bound)', r.scenario, r.flavour, meta)
                return
        ctx.count('startup_messages_checked', len(want))
        if want:
            ctx.nontrivial.add(('startup', q, meta['digest']))

def gen_race(ctx, k):
    rng = ctx.sub_rng('race', k)
    sc = Scn(seed=ctx.seed * 19 + k, perturb=rng.choice([0, 100, 400]), watchdog=180000)
    start_debug(sc, fi=rng.choice([0, 1]))
    readers = rng.choice([1, 2, 4, 8])
    sent = []
    uid = 0
    for blk in range(rng.randrange(2, 6)):
        n = rng.randrange(20, 120)
        sc.add(f'par {readers + 1}')
        for i in range(n):
            m = model.build_msg((0, 0, 0), 0, model.C('MSG_SYS_PONG'), bytes([uid & 0xFF, uid >> 8, 0xA5]))
            uid += 1
            sent.append(m)
            sc.add('t 0 ' + up(m))
            if rng.random() < 0.2:
                sc.add(f't 0 sleepreal {rng.randrange(50, 400)}')
        for t in range(1, readers + 1):
            for i in range(n):
                sc.add(f't {t} readm')
                if rng.random() < 0.3:
                    sc.add(f't {t} yield')
        sc.add('endpar', 'quiesce', 'drain')
    sc.add('mark cend', 'stop')
    return sc.text(), sent, readers

def eval_race(ctx, r, sent, readers, meta):
    if ctx.generic_failures(r, meta):
        return
    if runner.outcome(r) != 'ok':
        return
    got = [(e['t'], bytes.fromhex(e['msg'])) for e in r.events if e.get('e') == 'q' and e['q'] == 'msg']
    cg = Counter(b for (_, b) in got)
    cs = Counter(sent)
    ctx.evaluations += 1
    dup = [b for b, c in cg.items() if c > 1]
    if dup:
        ctx.violation('returned-twice', 'race', f'message {dup[0].hex()} returned {cg[dup[0]]} times to readers', r.scenario, r.flavour, meta)
        return
    lost = cs - cg
    if lost:
        ctx.violation('lost', 'race', f'{sum(lost.values())} of {len(sent)} queued messages were never returned (at most ~120 outstanding, bound is 128)', r.scenario, r.flavour, meta)
        return
    extra = cg - cs
    if extra:
        ctx.violation('altered-bytes', 'race', f'readers got {list(extra)[0].hex()} which was never sent', r.scenario, r.flavour, meta)
        return
    # per reader thread: FIFO (what one thread reads is in send order)
    order = {b: i for i, b in enumerate(sent)}
    last = {}
    for (t, b) in got:
        if t in last and order[b] < last[t]:
            ctx.violation('fifo-order', 'race', 'one reader received messages out of arrival order', r.scenario, r.flavour, meta)
            return
        last[t] = order[b]
    ctx.add_set('reader_interleavings', hashlib.sha1(repr([t for (t, _) in got]).encode()).hexdigest())
    if readers >= 2 and len({t for (t, _) in got}) >= 2:
        ctx.nontrivial.add(('race', meta['digest']))

def run(ctx):
    ctx.rule = ('(a) all 256 type codes with valid payloads (error and non-error variants, board and unknown sender) fed one by one in normal and debug '
                'mode, all three queues drained after each; (b) fill levels 1,126..131,200,256,300 of message/error queue; (b2) user-queue messages arriving during the start-up dialogue, with and without a node-table change during enumeration; (c) 1-8 reader threads '
                'racing the receiver over unique messages (asan+tsan, LSan on). non-trivial = distinct (type, destination, mode) / bound level / '
                'race scenario in which >=2 readers actually received messages')
    ctx.assumptions = ['destination table vlib/uplink.py from README + statement; MSG_VENDOR and undocumented booster states: any single destination accepted',
                       'intern queue observed through the non-static bidib_read_intern_message']
    jobs = []
    for k in range(ctx.n(8, 60)):
        for debug in (False, True):
            text, msgs = gen_routing(ctx, k, debug)
            jobs.append(('asan', text, ('route', msgs, debug)))
    for k in range(ctx.n(100, 1500)):
        text, msgs, mode, n = gen_bound(ctx, k)
        jobs.append(('asan', text, ('bound', msgs, mode, n)))
    for k in range(ctx.n(60, 2000)):
        text, exp = gen_startup(ctx, k)
        jobs.append(('asan', text, ('startup', exp)))
    for k in range(ctx.n(60, 2000)):
        text, sent, readers = gen_race(ctx, k)
        jobs.append(('tsan' if k % 2 else 'asan', text, ('race', sent, readers)))
    for fl in ('asan', 'tsan'):
        js = [j for j in jobs if j[0] == fl]
        res = runner.run_many(fl, [(i, j[1]) for i, j in enumerate(js)], timeout=600, leaks=(fl == 'asan'))
        for j, r in zip(js, res):
            meta = {'kind': j[2][0], 'digest': hashlib.sha1(j[1].encode()).hexdigest()[:12]}
            if j[2][0] == 'route':
                eval_routing(ctx, r, j[2][1], j[2][2], meta)
            elif j[2][0] == 'startup':
                eval_startup(ctx, r, j[2][1], meta)
            elif j[2][0] == 'bound':
                eval_bound(ctx, r, j[2][1], j[2][2], j[2][3], meta)
            else:
                eval_race(ctx, r, j[2][1], j[2][2], meta)
    ctx.sample({'routing_case': {'type': hex(jobs[0][2][1][0][1]), 'msg': jobs[0][2][1][0][0].hex()}})
    return ctx.finish(min_eval=300, min_nontrivial=100)
