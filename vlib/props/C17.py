"""C17 - query results are initialised deep copies, safe to free for known / unknown / NULL ids; the whole-track snapshot agrees
with the single-entity getters. Oracles: (memcheck) V-bits of every API-meaningful field of every result, probed by the harness with
VALGRIND_GET_VBITS; (asan) results kept by the caller are re-read after the state changed and after bidib_stop and freed exactly once;
(both) every field of bidib_get_state() equals the single-entity getter at the same quiescent point."""
import hashlib

from .. import cfggen, fold, model, runner, statemodel
from ..scen import Scn, up
from .C07 import cfg_dir, gen_feedback, gen_command

def gen_scenario(ctx, k, short=False):
    rng = ctx.sub_rng('c17', k)
    cfg = cfggen.gen_config(rng, nboards=rng.randrange(1, 4))
    d = cfggen.write_config(cfg, cfg_dir(f'c17_{k}'))
    nodes = cfggen.assign_tree(rng, cfg, absent_prob=0.15)
    m = statemodel.Model(cfg, nodes)
    sc = Scn(seed=ctx.seed * 89 + k, watchdog=600000)
    sc.add(*cfggen.bus_lines(cfg, nodes), 'bus brackets 0', f'start {d} 0', 'quiesce', 'snap s0')
    n = rng.randrange(5, 25 if short else 80)
    kept = False
    for i in range(n):
        if rng.random() < 0.2:
            line, hook = gen_command(rng, m, cfg)
            if line:
                sc.add(line, 'flush', 'quiesce')
        else:
            addr, t, data = gen_feedback(rng, m, cfg, nodes)
            sc.add(up(model.build_msg(addr, 0, t, data)), 'quiesce')
        if not kept and i >= n // 3:
            sc.add('keep keep')
            kept = True
        if rng.random() < (0.25 if short else 0.1):
            sc.add(f'snap s{i + 1}')
    if not kept:
        sc.add('keep keep')
    sc.add('snap end', 'keep after_changes', 'stop', 'keep after_stop', 'keep free')
    return sc.text(), cfg, nodes

def evaluate(ctx, r, meta, memcheck):
    if ctx.generic_failures(r, meta):
        return
    if runner.outcome(r) != 'ok':
        return
    ctx.evaluations += 1
    snaps = [e for e in r.events if e.get('e') == 'snap']
    for e in r.events:
        if e.get('e') == 'undef':
            path = e['path']
            kind = path.split(':')[0].split('.')[-1] if ':' in path or '.' in path else path
            unknown = 'no-such-id' in path or '@null' in path
            ctx.violation('uninitialised-field', f'{kind}.{e["field"]}' + ('(unknown-id)' if unknown else ''), f'getter result {path}: field {e["field"]} is not initialised (memcheck V-bits)',
                          r.scenario, r.flavour, meta)
    for e in snaps:
        diffs = statemodel.snapshot_vs_single(e)
        ctx.count('snapshots_checked')
        if diffs:
            p = diffs[0][0]
            field = p.split(':')[0] + '.' + p.split('.')[-1]
            ctx.violation('snapshot-vs-single', field, f'snapshot {e.get("tag")}: bidib_get_state() says {diffs[0][1]} where the single getter {p} says {diffs[0][2]} ({len(diffs)} differences)',
                          r.scenario, r.flavour, meta)
            return
    kept = [e for e in r.events if e.get('e') == 'kept']
    if not memcheck:
        if len(kept) < 4:
            ctx.inconclusive.append('deep-copy probe did not run')
            return
        ctx.count('kept_results_rechecked', sum(1 for x in kept if x.get('phase') != 'keep'))
    if snaps and (memcheck or kept):
        ctx.nontrivial.add(meta['digest'])

def run(ctx):
    ctx.rule = ('C07-style histories (generated configs, node trees, state-bearing feedback, commands); at several points every getter is called for every known id, '
                'one unknown id and NULL and the result passed to its free function exactly once; one batch runs under valgrind memcheck with per-field V-bit probes, the other '
                'under ASan with the keep / mutate / stop / re-read / free probe. non-trivial = distinct history with >=1 full snapshot')
    ctx.assumptions = ['fields gated by a known/available flag are probed only when the flag is set; padding is never probed',
                       'memcheck verdicts come from VALGRIND_GET_VBITS in the harness, not from memcheck\'s own heuristics', 'valgrind 3.19 memcheck']
    ja = [gen_scenario(ctx, k) for k in range(ctx.n(80, 3000))]
    res = runner.run_many('asan', [(i, j[0]) for i, j in enumerate(ja)], timeout=600, leaks=True)
    for j, r in zip(ja, res):
        evaluate(ctx, r, {'digest': hashlib.sha1(j[0].encode()).hexdigest()[:12], 'mode': 'asan'}, False)
    jm = [gen_scenario(ctx, 100000 + k, short=True) for k in range(ctx.n(32, 600))]
    resm = runner.run_many('plain', [(i, j[0]) for i, j in enumerate(jm)], timeout=1200, valgrind='memcheck')
    for j, r in zip(jm, resm):
        evaluate(ctx, r, {'digest': hashlib.sha1(j[0].encode()).hexdigest()[:12], 'mode': 'memcheck'}, True)
        ctx.count('memcheck_runs')
    ctx.sample({'history': [l for l in ja[0][0].split('\n') if l.startswith(('up ', 'call ', 'keep', 'snap'))][:12]})
    return ctx.finish(min_eval=40, min_nontrivial=20)
