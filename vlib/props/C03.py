"""C03 - per-node response budget never exceeded; deferred messages FIFO, exactly once, never stranded.
Oracles: (exact) reference flow-control model for clean single-submitter histories, compared with the wire at every
checkpoint; (two-sided safe) lower bound on outstanding bytes for every history incl. duplicated / out-of-order answers and
sender threads racing the receiver; per-node order and exactly-once at the final quiescent point."""
import hashlib
from collections import defaultdict, Counter

from .. import flow, gen, model, runner, spec_lowlevel as S, uplink
from ..scen import Scn, call, up

NODESETS = [[(1, 0, 0)], [(0, 0, 0), (1, 0, 0)], [(1, 0, 0), (1, 2, 0), (3, 0, 0)], [(1, 0, 0), (1, 2, 0), (1, 2, 3), (7, 0, 0)],
            [(1, 200, 0), (2, 200, 0), (200, 0, 0)], [(1, 1, 144), (1, 2, 144), (2, 1, 144), (1, 144, 0)]]      # same high byte under different parents
MAXSIZE = ['bidib_send_vendor_get', 'bidib_send_vendor_set', 'bidib_send_string_set', 'bidib_send_fw_update_op_data']
UNRELATED = ['MSG_BM_CURRENT', 'MSG_BM_SPEED', 'MSG_BOOST_CURRENT', 'MSG_LC_WAIT', 'MSG_BM_DYN_STATE']

def fn_by_type():
    d = defaultdict(list)
    for n, r in S.rows().items():
        if r['data'] is not None and n not in gen.EXCLUDE:
            d[model.C(r['type'])].append(n)
    return d

def answer_msg(rng, addr, rtype, seq=0):
    name = {model.C(n): n for n in uplink.KNOWN_UP}.get(rtype)
    data = uplink.payload(rng, name) if name else b'\x00'
    return model.build_msg(addr, seq, rtype, data)

def gen_seq(ctx, k, clean):
    rng = ctx.sub_rng('c03', k, clean)
    nodes = rng.choice(NODESETS)
    sc = Scn(seed=ctx.seed * 23 + k, watchdog=180000)
    sc.add('bus mode silent', 'bus brackets 0', 'debug 1', 'start @null 0')
    fl = flow.Flow()
    byt = fn_by_type()
    req_types = [t for t in byt if model.resp_size(t) > 0]
    zero_types = [t for t in byt if model.resp_size(t) == 0]
    big = [t for t in req_types if model.resp_size(t) >= 21]
    subs = defaultdict(list)      # node -> list of (type, data) in submission order
    steps = []
    cps = []                      # per checkpoint: dict node -> number of messages the model says are on the wire
    uid = 0
    is_clean = True
    held_seen = False
    released_after_hold = False
    nsteps = rng.randrange(10, 70)
    def checkpoint():
        sc.add('flush', 'quiesce', f'mark cp{len(cps)}')
        per = Counter()
        wired = set(fl.wire)
        for ad4, lst in subs.items():
            per[ad4] = sum(1 for (_t, _d, u) in lst if u in wired)
        cps.append(dict(per))
    if k % 5 == 4:
        # a long queue: the budget of one node is used up by unanswered requests, then 130-260 further messages (more than any of the
        # library's bounded queues holds) are submitted and held; they all go out, in order, once the answers arrive
        ad = rng.choice([x for x in nodes if x[2]] or nodes) if rng.random() < 0.6 else rng.choice(nodes)
        for j in range(rng.randrange(140, 270)):
            full = bool(fl.node(ad).held)
            t = rng.choice(zero_types if full and rng.random() < 0.8 else big if not full else req_types)
            name = rng.choice(byt[t])
            lb = 0.05
            if ad[2] and full and rng.random() < 0.3:
                # a message of the largest size there is (length byte 127: deepest address level, longest argument) that has to wait
                name, lb = rng.choice(MAXSIZE), 1.0
                t = model.C(S.rows()[name]['type'])
            nm, ad2, a, data = gen.random_call(rng, ad, names=[name], hot=0.2, long_bias=lb)
            if ad2 != ad:
                continue
            sc.add(call(nm, *S.tokens(nm, ad, a)))
            sent = fl.send(ad, t, uid)
            held_seen = held_seen or not sent
            subs[ad].append((t, data, uid))
            steps.append(('send', ad, t, uid, sent))
            uid += 1
            if j % 40 == 39:
                checkpoint()
        checkpoint()
        nsteps = rng.randrange(30, 90)
    # unanswered on-wire requests per node (ground truth of the simulated peer): list of dict(type,t)
    for i in range(nsteps):
        r = rng.random()
        ad = rng.choice(nodes)
        n = fl.node(ad)
        if r < 0.5:
            t = rng.choice(big) if rng.random() < 0.45 else rng.choice(req_types) if rng.random() < 0.8 else rng.choice(zero_types)
            name = rng.choice(byt[t])
            lb = 0.05
            if ad[2] and (n.held or fl.blocked_by_stall(ad)) and rng.random() < 0.3:
                name, lb = rng.choice(MAXSIZE), 1.0
                t = model.C(S.rows()[name]['type'])
            nm, ad2, a, data = gen.random_call(rng, ad, names=[name], hot=0.2, long_bias=lb)
            if ad2 != ad:
                ad = ad2
                n = fl.node(ad)
            sc.add(call(nm, *S.tokens(nm, ad, a)))
            sent = fl.send(ad, t, uid)
            if not sent:
                held_seen = True
            subs[ad].append((t, data, uid))
            steps.append(('send', ad, t, uid, sent))
            uid += 1
        elif r < 0.8 and n.out:
            # the peer answers; clean: the oldest unanswered request, with its main or an alternative answer
            if clean or rng.random() < 0.5:
                req = n.out[0]
            else:
                req = rng.choice(n.out)
                if req is not n.out[0]:
                    is_clean = False
            rt = rng.choice(model.resp_types(req['type']))
            # a later outstanding request of that node accepting the same type makes no difference for in-order answers
            before = len(fl.wire)
            if req is n.out[0]:
                fl.uplink(ad, rt)
            else:
                # out-of-order answer: exact bookkeeping is matcher dependent
                pass
            if len(fl.wire) > before and held_seen:
                released_after_hold = True
            sc.add(up(answer_msg(rng, ad, rt, rng.choice([0, rng.randrange(1, 256)]))))
            steps.append(('answer', ad, rt))
            if not clean and rng.random() < 0.3:
                sc.add(up(answer_msg(rng, ad, rt)))          # duplicated answer
                steps.append(('answer', ad, rt))
                is_clean = False
        elif r < 0.9:
            rt = model.C(rng.choice(UNRELATED))
            if fl.could_answer_any(ad, rt):
                continue
            before = len(fl.wire)
            fl.uplink(ad, rt)
            if len(fl.wire) > before and held_seen:
                released_after_hold = True
            sc.add(up(answer_msg(rng, ad, rt)))
            steps.append(('unrelated', ad, rt))
        else:
            # time passes: +1 s (nothing may expire that was sent within the last second) or +3 s (everything sent before has expired)
            # never probe at the 2 s boundary: +1 s only while no outstanding request is already 1 s old
            aged = any(fl.now - r_['t'] >= 1 for nn in fl.nodes.values() for r_ in nn.out)
            dt = 3 if aged else rng.choice([1, 3])
            fl.now += dt
            sc.add(f'advance {dt}')
            steps.append(('advance', dt))
            if dt == 3:
                # the opportunity to notice the expiry: an unrelated uplink message from each node with outstanding requests,
                # followed by a further (zero-response) send
                for ad3 in nodes:
                    n3 = fl.node(ad3)
                    if n3.out or n3.held:
                        rt = model.C('MSG_BM_CURRENT')
                        before = len(fl.wire)
                        fl.uplink(ad3, rt)
                        if len(fl.wire) > before and held_seen:
                            released_after_hold = True
                        sc.add(up(answer_msg(rng, ad3, rt)))
                        steps.append(('unrelated', ad3, rt))
        checkpoint()
    sc.add('mark cpend', 'stop')
    meta = {'clean': clean and is_clean, 'nodes': nodes, 'held': held_seen, 'released_after_hold': released_after_hold, 'steps': len(steps)}
    return sc.text(), subs, cps, steps, meta

def wire_by_checkpoint(r):
    """-> list (per checkpoint) of dict node -> list of (type, data, seq) cumulative"""
    cur = defaultdict(list)
    out = []
    for e in r.events:
        if e.get('e') == 'txm':
            cur[tuple(e['addr'])].append((e['type'], bytes.fromhex(e['data']), e['seq']))
        elif e.get('e') == 'mark' and str(e.get('m', '')).startswith('cp') and e['m'] != 'cpend':
            out.append({k: list(v) for k, v in cur.items()})
    return out

def safety_lower_bound(ctx, r, meta, answered_by_reply=False):
    """Replays the event log. outstanding(node) is a LOWER bound: every processed uplink message releases the oldest outstanding
    request that accepts it (most generous matcher), requests older than 2 virtual seconds are gone. A request that appears on the
    wire while lower bound + its size > 48 is a definite violation."""
    out = defaultdict(list)
    vt = 0.0
    pending_up = {}
    worst = 0
    for e in r.events:
        k = e.get('e')
        if k == 'advance':
            vt = e['vt'] / 1e6
        elif k == 'up':
            try:
                ms = model.split_messages(bytes.fromhex(e['payload']))
                pending_up[e['pkt']] = [model.parse_msg(m) for m in ms]
            except model.FrameError:
                pass
        elif k == 'reply':
            try:
                pm = model.parse_msg(bytes.fromhex(e['msg']))
                # generous: counts as answered as soon as the peer emitted it
                lst = out[tuple(pm['addr'])]
                for i, q in enumerate(lst):
                    if pm['type'] in model.resp_types(q['type']):
                        lst.pop(i)
                        break
            except model.FrameError:
                pass
        elif k == 'rxc' or (k == 'upraw'):
            pass
        elif k == 'quiet' or k == 'rxdone':
            # everything fed so far has been processed
            for pkt in sorted(pending_up):
                for pm in pending_up[pkt]:
                    lst = out[tuple(pm['addr'])]
                    for i, q in enumerate(lst):
                        if pm['type'] in model.resp_types(q['type']):
                            lst.pop(i)
                            break
            pending_up = {}
        elif k == 'txm':
            ad = tuple(e['addr'])
            size = model.resp_size(e['type'])
            lst = out[ad]
            lst[:] = [q for q in lst if int(vt) - int(q['t']) < model.EXPIRY_S]
            # messages fed but not yet known to be processed may already have been credited by the library: be generous
            for pkt in sorted(pending_up):
                for pm in list(pending_up[pkt]):
                    if tuple(pm['addr']) == ad:
                        for i, q in enumerate(lst):
                            if pm['type'] in model.resp_types(q['type']):
                                lst.pop(i)
                                pending_up[pkt].remove(pm)
                                break
            used = sum(q['size'] for q in lst)
            worst = max(worst, used + size)
            if size and used + size > model.BUDGET:
                ctx.violation('budget-exceeded', model.name_of(e['type']), f'node {ad}: request type {e["type"]:#x} (worst-case answer {size} B) put on the wire while '
                              f'at least {used} B of answers were still outstanding ({[(hex(q["type"]), q["size"]) for q in lst]}): {used + size} > 48',
                              r.scenario, r.flavour, meta)
                return None
            if size:
                lst.append({'type': e['type'], 'size': size, 't': vt})
    return worst

def eval_seq(ctx, r, subs, cps, meta):
    if ctx.generic_failures(r, meta):
        return
    if runner.outcome(r) != 'ok':
        return
    ctx.evaluations += 1
    worst = safety_lower_bound(ctx, r, meta)
    if worst is None:
        return
    ctx.cov['max_outstanding_plus_new_seen'] = max(ctx.cov.get('max_outstanding_plus_new_seen', 0), worst)
    wires = wire_by_checkpoint(r)
    if len(wires) != len(cps):
        ctx.inconclusive.append('checkpoint count mismatch')
        return
    # order + exactly once: per node the wire is a prefix of the submission order
    final = wires[-1] if wires else {}
    for ad, lst in final.items():
        exp = [(t, d) for (t, d, u) in subs.get(ad, [])]
        got = [(t, d) for (t, d, s) in lst]
        if got != exp[:len(got)]:
            i = next((i for i in range(min(len(got), len(exp))) if got[i] != exp[i]), min(len(got), len(exp)))
            cls = 'duplicated' if len(got) > len(exp) or Counter(got)[got[i] if i < len(got) else None] > Counter(exp)[got[i] if i < len(got) else None] else 'order'
            ctx.violation(cls, 'fifo', f'node {ad}: wire message #{i} is {got[i] if i < len(got) else None}, submission order says {exp[i] if i < len(exp) else None}',
                          r.scenario, r.flavour, meta)
            return
    if not meta['clean']:
        ctx.count('dirty_histories')
        return
    # exact: at every checkpoint the number of messages on the wire per node equals the model's
    for ci, (w, c) in enumerate(zip(wires, cps)):
        for ad in set(list(w) + list(c)):
            g, e = len(w.get(ad, [])), c.get(ad, 0)
            if g < e:
                ctx.violation('stranded', 'held', f'checkpoint {ci}: node {ad} has {g} messages on the wire, the flow-control model says {e} must have been '
                              f'handed to the transmit buffer (budget has room, node not stalled)', r.scenario, r.flavour, meta)
                return
            if g > e:
                ctx.violation('sent-too-early', 'held', f'checkpoint {ci}: node {ad} has {g} messages on the wire, the model allows only {e} '
                              f'(budget/held-FIFO)', r.scenario, r.flavour, meta)
                return
    ctx.count('clean_histories')
    if meta['held'] and meta['released_after_hold']:
        ctx.nontrivial.add(meta['digest'])

# ---------------------------------------------------------------- stress: sender threads racing the receiver
def gen_stress(ctx, k):
    rng = ctx.sub_rng('c03s', k)
    nodes = rng.choice(NODESETS)
    sc = Scn(seed=ctx.seed * 29 + k, perturb=rng.choice([0, 100, 400]), watchdog=240000)
    sc.add('bus mode answer', 'bus brackets 1')
    for i, ad in enumerate(nodes):
        sc.add(f'bus node {ad[0]}.{ad[1]}.{ad[2]} 0{i}00aabbccdd{i:02x}')
    pol = rng.choice(['all', 'lossy'])
    if pol == 'lossy':
        for t in rng.sample([0x07, 0x12, 0x19, 0x39, 0x30], 2):
            sc.add(f'bus policy {t:02x} {rng.choice(["never", "dup", "na"])}')
    sc.add('debug 1', f'start @null {rng.choice([0, 1])}')
    nt = rng.choice([2, 4, 8])
    byt = fn_by_type()
    req_types = [t for t in byt if model.resp_size(t) > 0 and t not in (model.C('MSG_NODETAB_GETNEXT'),)]
    sc.add(f'par {nt}')
    total = 0
    for t in range(nt):
        for j in range(rng.randrange(20, 80)):
            ad = rng.choice(nodes)
            ty = rng.choice(req_types)
            nm, ad2, a, data = gen.random_call(rng, ad, names=[rng.choice(byt[ty])], hot=0.2, long_bias=0.05)
            sc.add(f't {t} ' + call(nm, *S.tokens(nm, ad2, a)))
            total += 1
            if rng.random() < 0.2:
                sc.add(f't {t} flush')
    sc.add('endpar')
    for _ in range(4):
        sc.add('flush', 'quiesce')
    sc.add('mark cpend', 'stop')
    return sc.text(), {'kind': 'stress', 'threads': nt, 'nodes': nodes, 'policy': pol, 'calls': total}

def eval_stress(ctx, r, meta):
    if ctx.generic_failures(r, meta):
        return
    if runner.outcome(r) != 'ok':
        return
    ctx.evaluations += 1
    worst = safety_lower_bound(ctx, r, meta)
    if worst is None:
        return
    ctx.cov['max_outstanding_plus_new_seen'] = max(ctx.cov.get('max_outstanding_plus_new_seen', 0), worst)
    ctx.count('stress_histories')
    if worst >= 40:
        ctx.nontrivial.add(meta['digest'])

def run(ctx):
    ctx.rule = ('debug-mode sessions, 1-4 nodes (nested addresses), all request types with their table-defined answer size; peer scripted step by step: '
                'in-order answers with main/alternative (*_NA) type, unrelated spontaneous messages, lost answers + virtual time (+1 s / +3 s), and for '
                'dirty histories duplicated and out-of-order answers; histories mixing stall notices (nested, both orders) with budget deferral; stress: 2-8 sender threads against an answering/lossy simulated bus. '
                'non-trivial = distinct clean history in which a message was held by the budget and later released (or stress history that got within '
                '8 bytes of the limit)')
    ctx.assumptions = ['own request->answer size table in vlib/model.py', 'expiry is only required after the library had the opportunity to notice it '
                       '(an uplink message from that node), probed at +1 s and +3 s, never at the boundary', 'virtual time() via link-time wrapper']
    jobs = []
    for k in range(ctx.n(300, 15000)):
        clean = (k % 3 != 2)
        text, subs, cps, steps, meta = gen_seq(ctx, k, clean)
        meta['digest'] = hashlib.sha1(text.encode()).hexdigest()[:12]
        meta['kind'] = 'clean' if meta['clean'] else 'dirty'
        jobs.append(('asan', text, ('seq', subs, cps, meta)))
    for k in range(ctx.n(40, 1500)):
        text, meta = gen_stress(ctx, k)
        meta['digest'] = hashlib.sha1(text.encode()).hexdigest()[:12]
        jobs.append(('tsan' if k % 2 else 'asan', text, ('stress', meta)))
    # "never stranded ... whenever the node is not stalled": histories in which stall notices (nested, in both orders) and the budget interact -
    # generator and reference model of C04, judged at every checkpoint (held messages must be out once no ancestor is stalled and the budget has room)
    from . import C04
    for k in range(ctx.n(80, 4000)):
        text, subs, cps, meta = C04.gen_seq(ctx, 500000 + k)
        meta['digest'] = hashlib.sha1(text.encode()).hexdigest()[:12]
        meta['kind'] = 'stall+budget'
        jobs.append(('asan', text, ('stallseq', subs, cps, meta)))
    for fl_ in ('asan', 'tsan'):
        js = [j for j in jobs if j[0] == fl_]
        res = runner.run_many(fl_, [(i, j[1]) for i, j in enumerate(js)], timeout=600)
        for j, r in zip(js, res):
            if j[2][0] == 'seq':
                eval_seq(ctx, r, j[2][1], j[2][2], j[2][3])
            elif j[2][0] == 'stallseq':
                C04.eval_seq(ctx, r, j[2][1], j[2][2], j[2][3])
                ctx.count('stall_budget_histories')
            else:
                eval_stress(ctx, r, j[2][1])
    # ---- the budget after bidib_send_sys_reset in mid-session (normal mode): requests that were outstanding when the tables were reset do not
    # count any more - what fits the full 48 bytes goes out
    from .C01 import TESTCFG, bus_lines as c01_bus
    STRG = model.C('MSG_STRING_GET')
    rj = []
    for k in range(ctx.n(6, 120)):
        rng = ctx.sub_rng('c03reset', k)
        ad = rng.choice([(0, 0, 0), (5, 0, 0), (5, 6, 0)])
        nbefore = rng.choice([1, 1, 2])
        sc = Scn(seed=ctx.seed * 29 + k, watchdog=240000)
        sc.add(*c01_bus([(0, 0, 0), (5, 0, 0), (5, 6, 0)]), f'start {TESTCFG} 0', 'quiesce', f'bus policy {STRG:02x} never')
        for i in range(nbefore):
            sc.add(call('bidib_send_string_get', ad[0], ad[1], ad[2], 0, i, 0))
        sc.add('flush', 'quiesce', 'mark c0', 'reset', 'quiesce', 'flush', 'quiesce', 'mark c1',
               call('bidib_send_string_get', ad[0], ad[1], ad[2], 0, 7, 0), 'flush', 'quiesce', 'mark c2', 'stop')
        rj.append((sc.text(), ad))
    rres = runner.run_many('asan', [(i, j[0]) for i, j in enumerate(rj)], timeout=600)
    from .. import batch
    for j, r in zip(rj, rres):
        meta = {'kind': 'reset-budget', 'node': j[1]}
        if ctx.generic_failures(r, meta) or runner.outcome(r) != 'ok':
            continue
        seen = batch.split_by_marks(r.events)
        got = [e for e in seen.get(1, []) if e.get('e') == 'txm' and e['type'] == STRG and tuple(e['addr']) == tuple(j[1]) and e['data'].startswith('0007')]
        ctx.evaluations += 1
        ctx.count('reset_budget_cases')
        if len(got) != 1:
            ctx.violation('not-resumed', 'after-reset', f'node {j[1]}: a 30-byte request submitted after bidib_send_sys_reset (requests from before the reset unanswered) is on the wire {len(got)} times - '
                          f'the budget of the new table is 48 bytes', r.scenario, r.flavour, meta)
    ctx.sample({'kind': jobs[0][2][3]['kind'], 'nodes': jobs[0][2][3]['nodes'], 'scenario_head': jobs[0][1].split('\n')[7:22]})
    return ctx.finish(min_eval=100, min_nontrivial=20)
