"""C04 - stall: nothing is sent into a stalled subtree; held traffic resumes in order, exactly once, subject to the budget.
Oracle: reference flow-control model (vlib/flow.py) with the stall set over address prefixes, compared with the wire at a
checkpoint after every step; stress variant with the safety clause only."""
import hashlib
from collections import defaultdict, Counter

from .. import flow, gen, model, runner, spec_lowlevel as S
from ..scen import Scn, call, up
from .C03 import fn_by_type, answer_msg, wire_by_checkpoint

TREES = [
    [(1, 0, 0), (1, 2, 0), (1, 2, 3), (1, 2, 4), (1, 5, 0), (6, 0, 0)],
    [(2, 0, 0), (2, 1, 0), (2, 1, 1), (3, 0, 0), (3, 9, 0)],
    [(0, 0, 0), (1, 0, 0), (1, 1, 0), (1, 1, 1), (2, 0, 0)],
    [(7, 0, 0), (7, 7, 0), (7, 7, 7)],
    [(1, 0, 0), (1, 200, 0), (2, 0, 0), (2, 200, 0), (2, 200, 144), (1, 200, 144)],      # same high bytes beneath different parents
]
STALL = 0x8E

def gen_seq(ctx, k):
    rng = ctx.sub_rng('c04', k)
    nodes = rng.choice(TREES)
    root_stall = (0, 0, 0) in nodes and rng.random() < 0.5
    sc = Scn(seed=ctx.seed * 37 + k, watchdog=180000)
    sc.add('bus mode silent', 'bus brackets 0', 'debug 1', 'start @null 0')
    fl = flow.Flow()
    byt = fn_by_type()
    small = [t for t in byt if 0 < model.resp_size(t) <= 9]
    zero = [t for t in byt if model.resp_size(t) == 0]
    big = [t for t in byt if model.resp_size(t) >= 21]
    subs = defaultdict(list)
    cps = []
    uid = 0
    held_by_stall = False
    released = False
    used_root_stall = False
    timed = [0]

    def checkpoint():
        sc.add('flush', 'quiesce', f'mark cp{len(cps)}')
        wired = set(fl.wire)
        cps.append({ad4: sum(1 for (_t, _d, u) in lst if u in wired) for ad4, lst in subs.items()})

    def pattern_budget_then_stall(ad):
        """messages left over in the node's queue because of the BUDGET (not submitted during a stall), then the node stalls, every awaited
        answer arrives while it is stalled, nothing new is submitted, the stall ends: the leftovers must go out now"""
        nonlocal uid, held_by_stall, released
        for t in [rng.choice(big), rng.choice(big), rng.choice(big)] + [rng.choice(small) for _ in range(rng.randrange(0, 3))]:
            nm, ad2, a, data = gen.random_call(rng, ad, names=[rng.choice(byt[t])], hot=0.2, long_bias=0.05)
            if ad2 != ad:
                continue
            sc.add(call(nm, *S.tokens(nm, ad, a)))
            fl.send(ad, t, uid)
            subs[ad].append((t, data, uid))
            uid += 1
            checkpoint()
        fl.stall(ad, True)
        sc.add(up(model.build_msg(ad, 0, STALL, b'\x01')))
        checkpoint()
        n_ = fl.node(ad)
        while n_.out:
            rt = rng.choice(model.resp_types(n_.out[0]['type']))
            fl.uplink(ad, rt)
            sc.add(up(answer_msg(rng, ad, rt)))
            checkpoint()
        if n_.held:
            held_by_stall = True
        before = len(fl.wire)
        fl.stall(ad, False)
        if len(fl.wire) > before:
            released = True
        sc.add(up(model.build_msg(ad, 0, STALL, b'\x00')))
        checkpoint()
    pattern_at = rng.randrange(0, 30) if rng.random() < 0.35 else -1
    for i in range(rng.randrange(10, 70)):
        if i == pattern_at:
            cand = [x for x in nodes if x != (0, 0, 0) and not fl.blocked_by_stall(x)]
            if cand:
                pattern_budget_then_stall(rng.choice(cand))
        r = rng.random()
        ad = rng.choice(nodes)
        n = fl.node(ad)
        if r < 0.5:
            t = rng.choice(zero) if rng.random() < 0.5 else rng.choice(small) if rng.random() < 0.7 else rng.choice(big)
            nm, ad2, a, data = gen.random_call(rng, ad, names=[rng.choice(byt[t])], hot=0.2, long_bias=0.05)
            if ad2 != ad:
                continue                  # broadcast system messages go to node 0: only when node 0 is part of the tree
            sc.add(call(nm, *S.tokens(nm, ad, a)))
            blocked = fl.blocked_by_stall(ad)
            sent = fl.send(ad, t, uid)
            if blocked and not sent:
                held_by_stall = True
            subs[ad].append((t, data, uid))
            uid += 1
        elif r < 0.8:
            # stall / unstall notice (nested in any order, repeated, unstall without stall)
            cand = [x for x in nodes if x != (0, 0, 0) or root_stall]
            ad = rng.choice(cand)
            on = rng.random() < 0.5
            if ad == (0, 0, 0):
                used_root_stall = True
            before = len(fl.wire)
            fl.stall(ad, on)
            if len(fl.wire) > before:
                released = True
            sc.add(up(model.build_msg(ad, 0, STALL, bytes([1 if on else 0]))))
        elif r < 0.86:
            # time passes (also while nodes are stalled): 3 s, then every node with awaited answers or held messages says something unrelated, which is
            # the library's opportunity to notice that the awaited answers have expired. Held messages only start waiting for THEIR answers
            # when they are transmitted, however long they were held
            fl.now += 3
            sc.add('advance 3')
            # ... or nobody says anything: the next message of a node may then be a stall notice (the expiry is noticed while handling it)
            for ad3 in (nodes if rng.random() < 0.6 else []):
                n3 = fl.node(ad3)
                rt3 = model.C('MSG_BM_CURRENT')
                if (n3.out or n3.held) and not fl.could_answer_any(ad3, rt3):
                    before = len(fl.wire)
                    fl.uplink(ad3, rt3)
                    if len(fl.wire) > before:
                        released = True
                    sc.add(up(answer_msg(rng, ad3, rt3)))
            timed[0] += 1
        elif n.out:
            rt = rng.choice(model.resp_types(n.out[0]['type']))
            before = len(fl.wire)
            fl.uplink(ad, rt)
            if len(fl.wire) > before:
                released = True
            sc.add(up(answer_msg(rng, ad, rt)))
        else:
            continue
        sc.add('flush', 'quiesce', f'mark cp{len(cps)}')
        wired = set(fl.wire)
        cps.append({ad4: sum(1 for (_t, _d, u) in lst if u in wired) for ad4, lst in subs.items()})
    # finally clear every stall (leaf to root), everything held must appear
    for ad in sorted(nodes, reverse=True):
        if fl.node(ad).stalled:
            fl.stall(ad, False)
            sc.add(up(model.build_msg(ad, 0, STALL, b'\x00')))
            sc.add('flush', 'quiesce', f'mark cp{len(cps)}')
            wired = set(fl.wire)
            cps.append({ad4: sum(1 for (_t, _d, u) in lst if u in wired) for ad4, lst in subs.items()})
    sc.add('mark cpend', 'stop')
    meta = {'nodes': nodes, 'held_by_stall': held_by_stall, 'released': released, 'root_stall': used_root_stall}
    return sc.text(), subs, cps, meta

def eval_seq(ctx, r, subs, cps, meta):
    if ctx.generic_failures(r, meta):
        return
    if runner.outcome(r) != 'ok':
        return
    ctx.evaluations += 1
    wires = wire_by_checkpoint(r)
    if len(wires) != len(cps):
        ctx.inconclusive.append('checkpoint count mismatch')
        return
    final = wires[-1] if wires else {}
    for ad, lst in final.items():
        exp = [(t, d) for (t, d, u) in subs.get(ad, [])]
        got = [(t, d) for (t, d, s) in lst]
        if got != exp[:len(got)]:
            ctx.violation('order-or-duplicate', 'fifo', f'node {ad}: wire {got[:6]} is not a prefix of the submission order {exp[:6]}', r.scenario, r.flavour, meta)
            return
    site = 'root' if meta['root_stall'] else 'subtree'
    for ci, (w, c) in enumerate(zip(wires, cps)):
        for ad in set(list(w) + list(c)):
            g, e = len(w.get(ad, [])), c.get(ad, 0)
            if g > e:
                ctx.violation('sent-into-stalled-subtree', site, f'checkpoint {ci}: node {ad} has {g} messages on the wire, the model allows {e} '
                              f'(node or an ancestor reported MSG_STALL=1, or budget/held FIFO)', r.scenario, r.flavour, meta)
                return
            if g < e:
                ctx.violation('not-resumed', site, f'checkpoint {ci}: node {ad} has {g} messages on the wire, the model says {e} must be out '
                              f'(no stalled ancestor, budget has room)', r.scenario, r.flavour, meta)
                return
    if meta['held_by_stall'] and meta['released']:
        ctx.nontrivial.add(meta['digest'])

def gen_stress(ctx, k):
    """sender threads vs. the receiver processing stall notices: only the safety clause with call-start ordering"""
    rng = ctx.sub_rng('c04s', k)
    nodes = rng.choice(TREES[:2])
    sc = Scn(seed=ctx.seed * 41 + k, perturb=rng.choice([0, 200]), watchdog=240000)
    sc.add('bus mode silent', 'bus brackets 0', 'debug 1', 'start @null 0')
    zr = gen.zero_response_names()
    target = rng.choice([n for n in nodes if n[1] == 0])
    # phase 1: stall notice fully processed, then threads send into and outside the subtree
    sc.add(up(model.build_msg(target, 0, STALL, b'\x01')), 'quiesce', 'mark stalled')
    nt = rng.choice([2, 4, 8])
    sc.add(f'par {nt}')
    inside = outside = 0
    for t in range(nt):
        for j in range(rng.randrange(10, 50)):
            ad = rng.choice(nodes)
            nm, ad2, a, data = gen.random_call(rng, ad, names=zr, hot=0.2)
            if ad2 != ad:
                continue
            sc.add(f't {t} ' + call(nm, *S.tokens(nm, ad, a)))
            if ad[0] == target[0]:
                inside += 1
            else:
                outside += 1
            if rng.random() < 0.2:
                sc.add(f't {t} flush')
    sc.add('endpar', 'flush', 'quiesce', 'mark before_unstall')
    sc.add(up(model.build_msg(target, 0, STALL, b'\x00')), 'quiesce', 'flush', 'quiesce', 'mark cpend', 'stop')
    return sc.text(), {'kind': 'stress', 'target': target, 'inside': inside, 'outside': outside, 'threads': nt}

def eval_stress(ctx, r, meta):
    if ctx.generic_failures(r, meta):
        return
    if runner.outcome(r) != 'ok':
        return
    ctx.evaluations += 1
    phase = 0
    into = 0
    outc = 0
    after = 0
    for e in r.events:
        if e.get('e') == 'mark':
            phase = {'stalled': 1, 'before_unstall': 2, 'cpend': 3}.get(e['m'], phase)
        elif e.get('e') == 'txm':
            inside = e['addr'][0] == meta['target'][0]
            if phase == 1 and inside:
                into += 1
            elif phase == 1:
                outc += 1
            elif phase == 2 and inside:
                after += 1
    if into:
        ctx.violation('sent-into-stalled-subtree', 'stress', f'{into} messages reached the wire for the subtree of {meta["target"]} while it was stalled', r.scenario, r.flavour, meta)
        return
    if outc != meta['outside']:
        ctx.violation('outside-affected', 'stress', f'{outc} of {meta["outside"]} messages to nodes outside the stalled subtree were transmitted', r.scenario, r.flavour, meta)
        return
    if after != meta['inside']:
        ctx.violation('not-resumed', 'stress', f'after MSG_STALL=0 only {after} of {meta["inside"]} held messages were transmitted', r.scenario, r.flavour, meta)
        return
    if meta['inside'] and meta['outside']:
        ctx.nontrivial.add(meta['digest'])

def run(ctx):
    ctx.rule = ('trees of up to three address levels, random sequences of MSG_STALL=1/0 notices (nested ancestor/descendant in both orders, repeated, '
                'unstall without stall), sends of zero/small/large-response requests to nodes inside and outside, in-order answers, the pattern budget-leftovers / stall / all answers / unstall; checkpoint after '
                'every step; stress: 2-8 sender threads after a fully processed stall notice. non-trivial = distinct history in which a message was '
                'held because of a stall and later released')
    ctx.assumptions = ['reference model vlib/flow.py', 'a stall notice counts from the quiescent point after it was fed (sequential part)']
    jobs = []
    for k in range(ctx.n(300, 12000)):
        text, subs, cps, meta = gen_seq(ctx, k)
        meta['digest'] = hashlib.sha1(text.encode()).hexdigest()[:12]
        meta['kind'] = 'seq'
        jobs.append(('asan', text, ('seq', subs, cps, meta)))
    for k in range(ctx.n(40, 1500)):
        text, meta = gen_stress(ctx, k)
        meta['digest'] = hashlib.sha1(text.encode()).hexdigest()[:12]
        jobs.append(('tsan' if k % 2 else 'asan', text, ('stress', meta)))
    for fl_ in ('asan', 'tsan'):
        js = [j for j in jobs if j[0] == fl_]
        res = runner.run_many(fl_, [(i, j[1]) for i, j in enumerate(js)], timeout=600)
        for j, r in zip(js, res):
            if j[2][0] == 'seq':
                eval_seq(ctx, r, j[2][1], j[2][2], j[2][3])
            else:
                eval_stress(ctx, r, j[2][1])
    ctx.sample({'nodes': jobs[0][2][3]['nodes'], 'scenario_head': [l for l in jobs[0][1].split('\n') if l.startswith(('call', 'up'))][:12]})
    return ctx.finish(min_eval=100, min_nontrivial=20)
