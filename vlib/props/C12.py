"""C12 - no received byte stream causes out-of-bounds access, a crash or a stuck receiver.
Oracle: zero ASan/UBSan reports and normal exit, and after every hostile stream a known-good probe packet (resync delimiter + MSG_SYS_PONG
with a unique id) must come out of the message queue within the logical quiescence bound."""
import hashlib

from .. import batch, cfggen, gen, model, runner, statemodel, uplink
from ..model import C
from ..scen import Scn, raw, up
from .C07 import cfg_dir, gen_feedback, field_sweep
from .C02 import rand_msg, corrupt

def grammar_packet(rng, m=None, cfg=None):
    """a CRC-valid packet whose content is adversarial: inconsistent length bytes, over-deep / unterminated address stacks, every type with
    too little data, field values outside every table, list lengths beyond the message"""
    msgs = []
    for _ in range(rng.randrange(1, 4)):
        t = rng.choice([rng.randrange(256), C(rng.choice(uplink.KNOWN_UP + ['MSG_STALL']))])
        name = {C(n): n for n in uplink.KNOWN_UP}.get(t)
        if name and rng.random() < 0.7:
            data = bytearray(uplink.payload(rng, name, rng.choice(['ok', 'error'])))
        else:
            data = bytearray(rng.randrange(256) for _ in range(rng.randrange(0, 12)))
        k = rng.random()
        if k < 0.3 and data:
            data = data[:rng.randrange(0, len(data))]                      # shorter than the type requires
        elif k < 0.45:
            for i in range(len(data)):
                if rng.random() < 0.4:
                    data[i] = rng.choice([0xFF, 0xFE, 0x80, 0x7F, 0x09, 0x0D, 0x31, 0x85, 200, 250])   # out-of-table values
        elif k < 0.55:
            data += bytes(rng.randrange(256) for _ in range(rng.randrange(1, 60)))
        depth = rng.choice([0, 0, 1, 1, 2, 3, 4, 5, 8])
        if m is not None and cfg and cfg['boards'] and rng.random() < 0.5:
            conn = [b for b in cfg['boards'] if m.connected(b['id'])]
            if conn:
                a = m.addr[rng.choice(conn)['id']]
                addr = [x for x in a if x]
            else:
                addr = [rng.randrange(1, 256) for _ in range(depth)]
        else:
            addr = [rng.randrange(1, 256) for _ in range(depth)]
        term = b'' if rng.random() < 0.08 else b'\x00'                    # unterminated address stack
        body = bytes(addr) + term + bytes([rng.randrange(256), t]) + bytes(data)
        ln = len(body)
        lk = rng.random()
        if lk < 0.15:
            ln = rng.choice([0, 1, 2, 3, 255, 254, 128, ln + 1, ln + 7, max(0, ln - 1), max(0, ln - 3)])   # inconsistent length byte
        msgs.append(bytes([ln & 0xFF]) + body)
    payload = b''.join(msgs)
    if rng.random() < 0.1:
        payload = payload[:rng.randrange(0, len(payload) + 1)]
    return model.frame(payload[:240]) if len(payload) else model.frame(b'\x00')

def gen_stream(rng, kind, m=None, cfg=None, nodes=None):
    if kind == 'noise':
        return bytes(rng.choice([0xFE, 0xFD, 0x00, 0xFF, rng.randrange(256), rng.randrange(256)]) for _ in range(rng.randrange(1, 400)))
    if kind == 'long':
        n = rng.choice([255, 256, 257, 258, 300, 512, 1024, 4096])
        body = bytes(rng.choice([0x01, 0x7F, rng.randrange(0, 0xFD)]) for _ in range(n))
        return (b'\xfe' if rng.random() < 0.7 else b'') + body + (b'\xfe' if rng.random() < 0.5 else b'')
    if kind == 'mutated':
        parts = []
        for _ in range(rng.randrange(1, 6)):
            if m is not None and rng.random() < 0.6:
                addr, t, data = gen_feedback(rng, m, cfg, nodes)
                fr = model.frame(model.build_msg(addr, rng.randrange(256), t, data))
            else:
                fr = model.frame(rand_msg(rng, rng.randrange(65536)))
            if rng.random() < 0.7:
                fr, _k = corrupt(rng, fr)
            parts.append(fr)
        return b''.join(parts)
    if kind == 'fieldsweep':
        # valid feedback about configured equipment, one data byte swept over a slice of 0..255 (the slices of one process cover all values)
        lo = rng.randrange(0, 256, 32)
        return b''.join(model.frame(model.build_msg(ad, 0, t, d_)) for ad, t, d_ in field_sweep(rng, m, cfg, nodes, ntemplates=1, values=range(lo, lo + 32)))
    return b''.join(grammar_packet(rng, m, cfg) for _ in range(rng.randrange(1, 4)))

def probe_msg(i):
    return model.build_msg((0, 0, 0), 0, C('MSG_SYS_PONG'), bytes([0xC1, 0x2C, i & 0xFF, (i >> 8) & 0xFF]))

def make_scenario_factory(ctx, debug, cfg, nodes, seedk):
    def make(items):
        sc = Scn(seed=ctx.seed * 101 + seedk, watchdog=240000)
        if debug:
            sc.add('bus mode answer', 'bus node 0.0.0 80000d99000001', 'bus brackets 0', 'debug 1', 'start @null 0')
        else:
            d = cfggen.write_config(cfg, cfg_dir(f'c12_{seedk}'))
            sc.add(*cfggen.bus_lines(cfg, nodes), 'bus brackets 0', f'start {d} 0', 'quiesce')
        sc.add('drain intern')
        cmds = []
        if not debug:
            # the application is using the library meanwhile: commanded aspects / speeds put heap-allocated names and pending acknowledgements into
            # the state that the hostile traffic then hits (manual-operation reports, acknowledgements, state reports for commanded equipment)
            from ..scen import call, s as S_
            m_ = statemodel.Model(cfg, nodes)
            tos = [b['id'] for b in cfg['boards'] if m_.connected(b['id']) and cfggen.is_track_output(b)]
            for b in cfg['boards']:
                for kind_, fn_ in (('points_dcc', 'bidib_switch_point'), ('signals_dcc', 'bidib_set_signal'), ('points_board', 'bidib_switch_point'), ('signals_board', 'bidib_set_signal'),
                                   ('peripherals', 'bidib_set_peripheral')):
                    for a in (b.get(kind_) or []):
                        cmds.append(call(fn_, S_(a['id']), S_(a['aspects'][len(cmds) % len(a['aspects'])][0])))
            for t in cfg['trains']:
                if tos:
                    cmds.append(call('bidib_set_train_speed', S_(t['id']), 5, S_(tos[0])))
        n_done = 0
        for i, (kind, stream) in items:
            if cmds and n_done % 20 == 0:
                sc.add(*cmds, 'flush', 'quiesce')
            n_done += 1
            sc.add(f'mark c{i}', raw(list(stream)), 'quiesce', 'raw fe', up(probe_msg(i)), 'quiesce', 'drain intern')
        sc.add('mark cend', 'stop')
        return sc.text()
    return make

def run(ctx):
    ctx.rule = ('five generators: field sweeps (valid feedback about configured equipment with one data byte taking every value);  byte noise biased to delimiters/escapes; corrupted valid traffic (incl. feedback about configured equipment); grammar-generated CRC-valid packets with '
                'inconsistent length bytes, address stacks of depth 0-8 and unterminated, every type code with too little / too much data, field values outside every table; '
                'delimiter-less runs of 255-4096 bytes. Debug and normal mode, sender addresses of configured boards and unknown nodes; batches per process, the tail of a batch '
                'is re-run after a crash. non-trivial = distinct (generator, mode) case after which the probe packet was delivered')
    ctx.assumptions = ['ASan red zones 512 B + UBSan bounds on declared array sizes', 'a receiver may lose the packet that overlaps the garbage; the probe is preceded by a resync delimiter',
                       'uninitialised reads are not part of the statement']
    ncase = ctx.n(30000, 600000)
    per = 150
    groups = []
    k = 0
    total = 0
    while total < ncase:
        rng = ctx.sub_rng('c12', k)
        debug = (k % 3 == 0)
        cfg = nodes = m = None
        if not debug:
            cfg = cfggen.gen_config(rng, nboards=rng.randrange(1, 4), with_initial=False)
            nodes = cfggen.assign_tree(rng, cfg, absent_prob=0.1)
            m = statemodel.Model(cfg, nodes)
        cases = []
        for i in range(per):
            kind = rng.choice(['noise', 'mutated', 'grammar', 'grammar', 'grammar', 'long'] + ([] if debug else ['fieldsweep', 'fieldsweep']))
            cases.append((kind, gen_stream(rng, kind, m, cfg, nodes)))
        groups.append((debug, cfg, nodes, cases, k))
        total += per
        k += 1
    from concurrent.futures import ThreadPoolExecutor
    import os

    def work(g):
        debug, cfg, nodes, cases, kk = g
        out = []
        for r, idxs, died in batch.run_batches('asan', cases, make_scenario_factory(ctx, debug, cfg, nodes, kk), batch_size=per, workers=1, timeout=600):
            out.append((r, idxs, died))
        return g, out
    with ThreadPoolExecutor(int(os.environ.get('VERIF_JOBS', '16'))) as ex:
        results = list(ex.map(work, groups))
    for g, outs in results:
        debug, cfg, nodes, cases, kk = g
        mode = 'debug' if debug else 'normal'
        mk = make_scenario_factory(ctx, debug, cfg, nodes, kk)
        for r, idxs, died in outs:
            seen = batch.split_by_marks(r.events)
            for i in idxs:
                kind, stream = cases[i]
                meta = {'generator': kind, 'mode': mode, 'stream': stream.hex()[:2000], 'digest': hashlib.sha1(stream).hexdigest()[:12]}
                ctx.evaluations += 1
                ctx.count('gen_' + kind)
                if i == died:
                    scen = mk([(i, cases[i])])
                    n = 0
                    for cls, site, text in runner.asan_reports(r.san + '\n' + (r.stderr or '')):
                        n += 1
                        ctx.violation(cls, site, f'{mode} mode, {kind} stream {stream.hex()[:120]}: {cls} in {site}', scen, 'asan', meta, text)
                    for v in r.viols():
                        n += 1
                        ctx.violation(v['cls'], v['msg'].split(' ')[0], v['msg'], scen, 'asan', meta)
                    if not n:
                        oc = runner.outcome(r)
                        ctx.violation('stuck-receiver' if oc == 'hang' else 'crash', kind, f'{mode} mode, {kind} stream {stream.hex()[:120]}: process ended {oc} rc={r.rc} {r.stderr[-200:]}', scen, 'asan', meta, r.san)
                    continue
                evs = seen.get(i)
                if evs is None:
                    continue
                probe = probe_msg(i)
                got = [bytes.fromhex(e['msg']) for e in evs if e.get('e') == 'q' and e.get('q') == 'msg']
                if probe not in got:
                    ctx.violation('later-packet-lost', kind, f'{mode} mode: after the {kind} stream {stream.hex()[:160]} a well-formed packet was not processed '
                                  f'(queue returned {len(got)} messages)', mk([(i, cases[i])]), 'asan', meta)
                    continue
                ctx.nontrivial.add((kind, mode, meta['digest']))
    ctx.sample({'generator': groups[0][3][0][0], 'stream': groups[0][3][0][1].hex()[:200]})
    ctx.sample({'generator': groups[0][3][2][0], 'stream': groups[0][3][2][1].hex()[:200]})
    return ctx.finish(min_eval=1000, min_nontrivial=500)
