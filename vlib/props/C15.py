"""C15 - node table: correct address/connectivity at startup and on node new/lost.
Oracle: model tree (address = path of local addresses; present <=> connected; lost interface takes everything beneath it);
connectivity getters after start and after every notice; one NODE_CHANGED_ACK(version) to the announcer per notice; a ping per board
afterwards must go to the model's current address or be refused."""
import hashlib

from .. import batch, cfggen, fold, model, runner, statemodel
from ..model import C
from ..scen import Scn, call, up, s as S_
from .C07 import cfg_dir

def connectivity(snap):
    out = {}
    for k, v in snap['enum'].items():
        if k.startswith('board:'):
            a = v.get('addr')
            out[k[6:]] = (bool(v.get('connected')), (a['top'], a['sub'], a['subsub']) if a and v.get('addr_known') else None)
    return out

def near_miss(rng, cfg, present):
    """a unique id that differs from a configured board's in exactly one byte (class bits, class extension, vendor, product) and is nobody's id"""
    taken = {bytes(b['uid']) for b in cfg['boards']} | {bytes(u) for u in present.values()}
    for _ in range(20):
        base = bytearray(rng.choice(cfg['boards'])['uid'])
        i = rng.choice([0, 0, 1, 2, 3, 4, 5, 6])
        base[i] ^= rng.choice([0x40, 0x20, 0x08, 0x04, 0x01]) if i == 0 else rng.randrange(1, 256)
        if bytes(base) not in taken:
            return bytes(base)
    return bytes([0x00, 0x02, 0x0D, 0xDD, 0xDD, rng.randrange(256), 0x01])

def gen_scenario(ctx, k):
    rng = ctx.sub_rng('c15', k)
    cfg = cfggen.gen_config(rng, nboards=rng.randrange(1, 7), rich=False, with_initial=False, max_trains=1)
    # more interfaces so that nesting happens
    for b in cfg['boards']:
        if rng.random() < 0.5:
            b['uid'] = bytes([b['uid'][0] | 0x80]) + b['uid'][1:]
    # several track outputs and at least one train: bidib_stop and bidib_send_sys_reset command every train on every CONNECTED track output
    for b in cfg['boards']:
        if rng.random() < 0.4:
            b['uid'] = bytes([b['uid'][0] | 0x10]) + b['uid'][1:]
    if not cfg['trains']:
        cfg['trains'].append({'id': 'xt15', 'addr': cfggen.free_dcc(cfg, (0x3E, 0x15)), 'steps': rng.choice(cfggen.SPEED_STEPS), 'calibration': None, 'peripherals': None})
    uids = set()
    for b in cfg['boards']:
        while b['uid'] in uids:
            b['uid'] = b['uid'][:6] + bytes([rng.randrange(256)])
        uids.add(b['uid'])
    d = cfggen.write_config(cfg, cfg_dir(f'c15_{k}'))
    nodes = cfggen.assign_tree(rng, cfg, absent_prob=0.25, unknown=rng.randrange(0, 3), unknown_hubs=rng.choice([0, 0, 1, 2]))
    sc = Scn(seed=ctx.seed * 71 + k, watchdog=300000)
    sc.add(*cfggen.bus_lines(cfg, nodes), 'bus brackets 1')
    tabchange = None
    if rng.random() < 0.5:
        tabchange = rng.randrange(0, max(1, len(nodes)))
        kids = [(a, u) for a, u in nodes if a != (0, 0, 0) and a[1] == 0]
        by_uid_ = {b['uid']: b for b in cfg['boards']}
        cand = [ci for ci, (a, u) in enumerate(kids[:-1]) if u in by_uid_ and not cfggen.is_interface(by_uid_[u])]
        if cand and rng.random() < 0.5:
            # the change IS a node that dropped off the bus after its row had been read: the read-in that follows does not list it any more
            ci = rng.choice(cand)
            xa = kids[ci][0]
            tabchange = ci + 2
            sc.add(f'bus tabchange {tabchange} del {xa[0]}.{xa[1]}.{xa[2]}')
            nodes = [(a, u) for a, u in nodes if a != xa]
        else:
            sc.add(f'bus tabchange {tabchange}')
    m = statemodel.Model(cfg, nodes)
    sc.add(f'start {d} 0', 'quiesce', 'snap s0')
    notices = []
    repeatable = []
    version = 2
    present = {tuple(a): uid for a, uid in nodes}
    for i in range(rng.randrange(0, 30)):
        # announcers: interfaces currently in the model tree (root or configured interface boards that are connected), depth <= 2
        ann = [(0, 0, 0)] + [m.addr[b['id']] for b in cfg['boards'] if m.connected(b['id']) and cfggen.is_interface(b) and m.addr[b['id']][2] == 0]
        r = rng.random()
        conn = [b for b in cfg['boards'] if m.connected(b['id']) and m.addr[b['id']] != (0, 0, 0)]
        if repeatable and rng.random() < 0.15:
            # the interface repeats a notice (its acknowledgement came late or was lost), with the same or the next table version: it is
            # a notice like any other and is acknowledged; the tree stays as it is
            announcer, t, data = rng.choice(repeatable)
            data = bytes([version if rng.random() < 0.5 else data[0]]) + data[1:]
            m.on_uplink(announcer, t, data)
            j = len(notices)
            notices.append((announcer, data[0], t))
            sc.add(f'mark c{j}', up(model.build_msg(announcer, 0, t, data)), 'quiesce', f'snap n{j}')
            version = (version % 255) + 1
            continue
        if r < 0.45 and conn:
            b = rng.choice(conn)
            a = m.addr[b['id']]
            dpt = 1 if a[1] == 0 else 2 if a[2] == 0 else 3
            parent = tuple(list(a[:dpt - 1]) + [0] * (3 - (dpt - 1)))
            local = a[dpt - 1]
            data = bytes([version, local]) + b['uid']
            t = C('MSG_NODE_LOST')
            announcer = parent
            sc.add(f'bus delnode {a[0]}.{a[1]}.{a[2]}')
            present.pop(tuple(a), None)
        elif r < 0.9:
            # a configured board (absent, lost or re-login at a different address) or an unknown node logs on
            b = rng.choice(cfg['boards']) if rng.random() < 0.85 else None
            announcer = rng.choice(ann)
            dpt = 0 if announcer[0] == 0 else 1 if announcer[1] == 0 else 2
            local = rng.randrange(1, 128)
            newa = list(announcer)
            newa[dpt] = local
            newa = tuple(newa)
            if newa in present or any(m.addr.get(x['id']) == newa for x in cfg['boards']) or (b and m.addr.get(b['id']) == (0, 0, 0)):
                continue          # the address is taken (by a configured board or by an unknown node that logged on earlier)
            uid = b['uid'] if b else bytes([0x00, 0x02, 0x0D, 0xDD, 0xDD, i & 0xFF, 0x01])
            if b is None and rng.random() < 0.5:
                uid = near_miss(rng, cfg, present)       # one byte off a configured board: still an unknown node
            data = bytes([version, local]) + uid
            t = C('MSG_NODE_NEW')
            if b and m.connected(b['id']):
                old = m.addr[b['id']]
                sc.add(f'bus delnode {old[0]}.{old[1]}.{old[2]}')
                present.pop(tuple(old), None)
            for sa in [a_ for a_, u_ in present.items() if u_ == uid]:
                sc.add(f'bus delnode {sa[0]}.{sa[1]}.{sa[2]}')      # a node left behind under an interface that was lost earlier
                present.pop(sa)
            sc.add(f'bus node {newa[0]}.{newa[1]}.{newa[2]} {uid.hex()}')
            present[newa] = uid
        else:
            # lost notice for an unknown unique id
            announcer = rng.choice(ann)
            data = bytes([version, rng.randrange(1, 128)]) + (bytes([0x00, 0x04, 0x0D, 0xCC, 0xCC, i & 0xFF, 0x02]) if rng.random() < 0.5 else near_miss(rng, cfg, present))
            t = C('MSG_NODE_LOST')
        m.on_uplink(announcer, t, data)
        repeatable[:] = [(announcer, t, data)]          # only the latest notice can be repeated without changing the tree
        j = len(notices)
        notices.append((announcer, version, t))
        sc.add(f'mark c{j}', up(model.build_msg(announcer, 0, t, data)), 'quiesce', f'snap n{j}')
        version = (version % 255) + 1
    # the node table is read a second time in the same session (bidib_send_sys_reset) and the interface has handed out two addresses the
    # other way round meanwhile: every board is found at its CURRENT address afterwards
    hooks = {}
    if rng.random() < 0.4:
        conn = [b for b in cfg['boards'] if m.connected(b['id']) and m.addr[b['id']] != (0, 0, 0)]

        def dep(a):
            return 1 if a[1] == 0 else 2 if a[2] == 0 else 3

        def has_kids(b):
            a = m.addr[b['id']]
            return any(o is not b and dep(m.addr[o['id']]) > dep(a) and m.addr[o['id']][:dep(a)] == a[:dep(a)] for o in conn)
        leaves = [b for b in conn if not has_kids(b)]
        pairs = [(x, y) for x in leaves for y in leaves if x['id'] < y['id'] and dep(m.addr[x['id']]) == dep(m.addr[y['id']])
                 and m.addr[x['id']][:dep(m.addr[x['id']]) - 1] == m.addr[y['id']][:dep(m.addr[y['id']]) - 1]]
        # only when the simulated bus and the model agree about the whole tree (scripted notices may leave nodes behind whose parent has gone:
        # irrelevant for the notices themselves, but a second enumeration would not find them)
        def reachable(a):
            d_ = dep(a) if a != (0, 0, 0) else 0
            return all(tuple(list(a[:i]) + [0] * (3 - i)) in present for i in range(0, d_))
        by_uid = {b['uid']: b for b in cfg['boards']}
        entries = [(by_uid[u]['id'], a) for a, u in present.items() if u in by_uid and reachable(a)]
        bus_view = dict(entries) if len({e_[0] for e_ in entries}) == len(entries) else None      # one node per configured unique id
        model_view = {b['id']: m.addr[b['id']] for b in cfg['boards'] if m.connected(b['id'])}
        if bus_view != model_view:
            pairs = []
        if bus_view == model_view and leaves and rng.random() < 0.4:
            # a board leaves the bus WITHOUT a notice (the interface lost the message, or was reset itself) and the application reads the node
            # table again: it is not in the tree any more, so it is not connected any more - and the second start-up dialogue talks to nobody there
            X = rng.choice(leaves)
            ax = m.addr[X['id']]
            sc.add(f'bus delnode {ax[0]}.{ax[1]}.{ax[2]}', 'mark cx', 'reset', 'quiesce', 'flush', 'quiesce', 'mark swapped', 'snap r0')
            m.addr.pop(X['id'])
            present.pop(tuple(ax), None)

            def hook(mm, xi=X['id']):
                mm.addr.pop(xi, None)
            hooks['swapped'] = hook
            pairs = []
        if pairs:
            x, y = rng.choice(pairs)
            ax, ay = m.addr[x['id']], m.addr[y['id']]
            sc.add(f'bus delnode {ax[0]}.{ax[1]}.{ax[2]}', f'bus delnode {ay[0]}.{ay[1]}.{ay[2]}', f'bus node {ax[0]}.{ax[1]}.{ax[2]} {y["uid"].hex()}',
                   f'bus node {ay[0]}.{ay[1]}.{ay[2]} {x["uid"].hex()}', 'mark cx', 'reset', 'quiesce', 'flush', 'quiesce', 'mark swapped', 'snap r0')
            m.addr[x['id']], m.addr[y['id']] = ay, ax

            def hook(mm, xi=x['id'], yi=y['id'], ax=ax, ay=ay):
                mm.addr[xi], mm.addr[yi] = ay, ax
            hooks['swapped'] = hook
    # finally: a ping per board must go to its current address, or be refused when it is not connected
    pings = []
    for b in cfg['boards']:
        j = len(notices) + len(pings)
        pings.append((b['id'], m.addr.get(b['id'])))
        sc.add(f'mark c{j}', call('bidib_ping', S_(b['id']), 0x5A), 'flush', 'quiesce')
    sc.add('mark cend', 'stop')
    return sc.text(), cfg, nodes, notices, pings, tabchange, hooks

def evaluate(ctx, r, cfg, nodes, notices, pings, tabchange, meta, hooks=None):
    if ctx.generic_failures(r, meta):
        return
    if runner.outcome(r) != 'ok':
        return
    begin, ret_i = fold.session_start_index(r.events)
    if ret_i is None or r.events[ret_i].get('r') != 0:
        ctx.violation('start-failed', 'tree', 'start did not return 0', r.scenario, r.flavour, meta)
        return
    ctx.evaluations += 1
    m = statemodel.Model(cfg, nodes)
    bad = []

    def on_snap(mm, e):
        got = connectivity(e)
        for b in cfg['boards']:
            exp = (mm.connected(b['id']), mm.addr.get(b['id']))
            g = got.get(b['id'])
            if g is None or g[0] != exp[0] or (exp[0] and g[1] != exp[1]):
                if not bad:
                    bad.append((e.get('tag'), b['id'], exp, g))
        ctx.count('connectivity_snapshots')
    fold.fold(m, r.events, begin, hooks, on_snap)
    if hooks:
        ctx.count('address_swaps_before_reset')
    if bad:
        tag, bid, exp, g = bad[0]
        cls = 'startup-table' if tag == 's0' else 'after-reset' if tag == 'r0' else 'after-notice'
        ctx.violation(cls, 'connectivity', f'snapshot {tag}: board {bid} reported (connected, address) = {g}, the node tree says {exp}', r.scenario, r.flavour, meta)
        return
    if tabchange is not None:
        getall = [e for e in r.events[:ret_i] if e.get('e') == 'txm' and e['type'] == C('MSG_NODETAB_GETALL') and e['addr'] == [0, 0, 0]]
        counts = [e for e in r.events[:ret_i] if e.get('e') == 'reply' and e['rtype'] == C('MSG_NODETAB_COUNT')]
        changed = len(counts) > len([e for e in r.events[:ret_i] if e.get('e') == 'txm' and e['type'] == C('MSG_NODETAB_GETALL')])
        if changed:
            ctx.count('table_change_during_enumeration')
            if len(getall) < 2:
                ctx.violation('no-restart', 'enumeration', 'a node-table change was announced during enumeration but the table of the interface was not requested again', r.scenario, r.flavour, meta)
                return
    seen = batch.split_by_marks(r.events)
    for j, (announcer, version, t) in enumerate(notices):
        evs = seen.get(j, [])
        acks = [e for e in evs if e.get('e') == 'txm' and e['type'] == C('MSG_NODE_CHANGED_ACK')]
        if len(acks) != 1 or tuple(acks[0]['addr']) != tuple(announcer) or bytes.fromhex(acks[0]['data']) != bytes([version]):
            ctx.violation('ack', 'node-changed-ack', f'notice #{j} (type {t:#x}, version {version}) from {announcer}: acknowledgements on the wire: '
                          f'{[(e["addr"], e["data"]) for e in acks]}', r.scenario, r.flavour, meta)
            return
    for i, (bid, addr) in enumerate(pings):
        evs = seen.get(len(notices) + i, [])
        rv = next((e['r'] for e in evs if e.get('e') == 'ret'), None)
        tx = [e for e in evs if e.get('e') == 'txm' and e['type'] == C('MSG_SYS_PING')]
        if addr is None:
            if rv != 1 or tx:
                ctx.violation('command-to-disconnected', 'ping', f'board {bid} is not connected but bidib_ping returned {rv} and sent {[e["addr"] for e in tx]}', r.scenario, r.flavour, meta)
                return
        else:
            if rv != 0 or len(tx) != 1 or tuple(tx[0]['addr']) != tuple(addr):
                ctx.violation('wrong-destination', 'ping', f'board {bid} is connected at {addr} but bidib_ping returned {rv} and sent to {[e["addr"] for e in tx]}', r.scenario, r.flavour, meta)
                return
    # commands of bidib_stop (and of the second enumeration) are addressed to current addresses of connected boards only; train and
    # track-output commands to connected track outputs only
    conn_now = {tuple(m.addr[b['id']]) for b in cfg['boards'] if m.connected(b['id'])}
    to_now = {tuple(m.addr[b['id']]) for b in cfg['boards'] if m.connected(b['id']) and cfggen.is_track_output(b)}
    ci = next((i for i, e in enumerate(r.events) if e.get('e') == 'call' and e.get('f') == 'bidib_stop'), None)
    if ci is not None:
        for e in r.events[ci:]:
            if e.get('e') != 'txm':
                continue
            a = tuple(e['addr'])
            cs = e['type'] in (C('MSG_CS_DRIVE'), C('MSG_CS_SET_STATE'))
            if a not in (to_now if cs else conn_now):
                ctx.violation('wrong-destination', 'stop', f'bidib_stop sent type {e["type"]:#x} to {a}; connected boards are at {sorted(conn_now)}, connected track outputs at {sorted(to_now)}', r.scenario, r.flavour, meta)
                return
        ctx.count('stop_destinations_checked')
    depth = max([0] + [3 if a[2] else 2 if a[1] else 1 if a[0] else 0 for a, _u in nodes])
    if notices or depth >= 2:
        ctx.nontrivial.add(meta['digest'])
    ctx.count('notices', len(notices))
    ctx.cov['max_tree_depth'] = max(ctx.cov.get('max_tree_depth', 0), depth)

def gen_directed(ctx, k):
    """a command for a board whose loss / login the receiver is handling right now (receiver parked at its p-th scheduling point): once the
    notice has been ACKNOWLEDGED on the wire, no command may go to the address of the board that was lost, and a command for the board that
    logged on must be accepted"""
    from .. import sweep
    rng = ctx.sub_rng('c15d', k)
    cfg = cfggen.gen_config(rng, nboards=rng.randrange(2, 4), rich=False, with_initial=False, max_trains=1)
    for b in cfg['boards'][1:]:
        b['uid'] = bytes([b['uid'][0] & 0x7F]) + b['uid'][1:]          # leaves
    d = cfggen.write_config(cfg, cfg_dir(f'c15d_{k}'))
    nodes = cfggen.assign_tree(rng, cfg, absent_prob=0.0, unknown=0, depth3=False)
    m = statemodel.Model(cfg, nodes)
    sc = Scn(seed=ctx.seed * 89 + k, watchdog=300000)
    sc.add(*cfggen.bus_lines(cfg, nodes), 'bus brackets 1', f'start {d} 0', 'quiesce')
    cand = [b for b in cfg['boards'] if m.connected(b['id']) and m.addr[b['id']] != (0, 0, 0) and m.addr[b['id']][1] == 0 and not cfggen.is_interface(b)]
    cases = []
    if not cand:
        sc.add('stop')
        return sc.text(), cases
    B = rng.choice(cand)
    a = m.addr[B['id']]
    version = 2
    fn = bool(k % 2)
    for p_ in (range(1, 25) if not fn else range(1, 60, 2)):
        for t, code in ((C('MSG_NODE_LOST'), 'lost'), (C('MSG_NODE_NEW'), 'new')):
            data = bytes([version, a[0]]) + B['uid']
            idx = len(cases)
            if code == 'lost':
                sc.add(f'bus delnode {a[0]}.0.0')
            else:
                sc.add(f'bus node {a[0]}.0.0 {B["uid"].hex()}')
            sweep.add_receiver_case(sc, idx, [up(model.build_msg((0, 0, 0), 0, t, data))], [call('bidib_ping', S_(B['id']), 0x5A)], p_, fn, after=('release', 'quiesce', 'flush', 'quiesce'))
            cases.append((code, tuple(a), version))
            version = (version % 255) + 1
    sc.add(f'mark c{len(cases)}', 'stop')
    return sc.text(), cases

def eval_directed(ctx, r, cases, meta):
    from .. import sweep
    if ctx.generic_failures(r, meta):
        return
    if runner.outcome(r) != 'ok' or not cases:
        return
    ctx.evaluations += 1
    seen = batch.split_by_marks(r.events)
    for i, (code, a, version) in enumerate(cases):
        evs = seen.get(i, [])
        ack = next((j for j, e in enumerate(evs) if e.get('e') == 'txm' and e['type'] == C('MSG_NODE_CHANGED_ACK') and bytes.fromhex(e['data']) == bytes([version])), None)
        ci = next((j for j, e in enumerate(evs) if e.get('e') == 'call' and e.get('f') == 'bidib_ping'), None)
        rv = next((e['r'] for e in evs if e.get('e') == 'ret' and e.get('f') == 'bidib_ping'), None)
        ping = next((j for j, e in enumerate(evs) if e.get('e') == 'txm' and e['type'] == C('MSG_SYS_PING') and tuple(e['addr']) == a), None)
        if ack is None or ci is None:
            ctx.inconclusive.append('directed notice case without acknowledgement or call')
            continue
        ctx.count('directed_notice_cases')
        if code == 'lost' and ping is not None and ping > ack:
            ctx.violation('command-after-acknowledged-loss', 'ping', f'case {i}: the loss of the board at {a} was acknowledged (version {version}) and AFTER that a command for it was put on the wire '
                          f'(bidib_ping returned {rv})', r.scenario, r.flavour, meta)
            return
        if code == 'new' and ack < ci and rv != 0:
            ctx.violation('refused-after-acknowledged-login', 'ping', f'case {i}: the login of the board at {a} was acknowledged (version {version}) before bidib_ping was called, which returned {rv}', r.scenario, r.flavour, meta)
            return
        if ack < ci:
            ctx.count('directed_calls_after_the_acknowledgement')
    sweep.pause_stats(ctx, r.events, 'directed')
    ctx.nontrivial.add(meta['digest'])

def run(ctx):
    ctx.rule = ('generated trees (1-6 configured boards, ~half interfaces, nested up to three levels, 0-2 unknown nodes, ~25% of boards absent), optional node-table '
                'change after the k-th row, then 0-30 node-lost / node-new notices (loss of interfaces with children, re-login at a different address, unknown '
                'ids, repeated notices); connectivity getters after start and after every notice, ack per notice, in 40 % of the runs two boards swap their addresses and the table is read again (bidib_send_sys_reset), ping per board at the end. non-trivial = distinct scenario '
                'with >=1 notice or a tree of depth >= 2')
    ctx.assumptions = ['announcers have address depth <= 2', 'simulated bus node table is updated alongside the scripted notices so that later requests are answered']
    jobs = [gen_scenario(ctx, k) for k in range(ctx.n(200, 8000))]
    res = runner.run_many('asan', [(i, j[0]) for i, j in enumerate(jobs)], timeout=600)
    for j, r in zip(jobs, res):
        meta = {'digest': hashlib.sha1(j[0].encode()).hexdigest()[:12], 'nodes': [(list(a), u.hex()) for a, u in j[2]], 'tabchange': j[5]}
        evaluate(ctx, r, j[1], j[2], j[3], j[4], j[5], meta, j[6] if len(j) > 6 else None)
    djobs = [gen_directed(ctx, k) for k in range(ctx.n(8, 200))]
    dres = runner.run_many('asan', [(i, j[0]) for i, j in enumerate(djobs)], timeout=600)
    for j, r in zip(djobs, dres):
        eval_directed(ctx, r, j[1], {'digest': hashlib.sha1(j[0].encode()).hexdigest()[:12], 'kind': 'directed'})
    ctx.sample({'tree': [(list(a), u.hex()) for a, u in jobs[0][2]], 'notices': [(list(a), v, hex(t)) for a, v, t in jobs[0][3][:6]]})
    return ctx.finish(min_eval=50, min_nontrivial=20)
