"""C07 - tracked state equals the fold of all feedback messages over the initial state (plus the optimistic effect of the
user's drive / DCC-accessory commands). Oracle: reference fold (vlib/statemodel.py) over the recorded uplink/downlink history,
compared field by field with bidib_get_state() and the single-entity getters at every snapshot."""
import hashlib
import os

from .. import cfggen, fold, model, runner, statemodel, uplink
from ..model import C
from ..scen import Scn, call, up, raw, s as S_

def cfg_dir(tag):
    d = os.path.join(runner.run_dir(), 'cfg_' + tag)
    return d

def rb(rng):
    return rng.choice([0, 1, 2, 3, 15, 16, 63, 64, 127, 128, 191, 192, 250, 251, 253, 254, 255, rng.randrange(256)])

def gen_feedback(rng, m, cfg, nodes):
    """one state-bearing uplink message: mostly about existing equipment, sometimes unknown node/number/port/address"""
    conn = [b for b in cfg['boards'] if m.connected(b['id'])]
    unknown_addr = (99, 0, 0)
    b = rng.choice(conn) if conn and rng.random() < 0.9 else None
    addr = m.addr[b['id']] if b else unknown_addr
    trains = cfg['trains']

    def train_addr():
        if trains and rng.random() < 0.85:
            t = rng.choice(trains)
            return t['addr'][1], t['addr'][0] | (rng.choice([0, 0x80]))
        return rng.randrange(256), rng.randrange(0x40)
    kinds = ['cs_state', 'drive_ack', 'speed', 'dyn', 'drive_manual', 'boost_stat', 'boost_diag', 'acc_state', 'acc_ack', 'acc_manual',
             'lc_stat', 'lc_wait', 'occ', 'free', 'multiple', 'address', 'confidence', 'current', 'vendor']
    k = rng.choice(kinds)
    if k == 'cs_state':
        return addr, C('MSG_CS_STATE'), bytes([rng.choice(uplink.CS_STATES)])
    if k == 'drive_ack':
        l, h = train_addr()
        return addr, C('MSG_CS_DRIVE_ACK'), bytes([l, h, rng.randrange(5)])
    if k == 'speed':
        l, h = train_addr()
        return addr, C('MSG_BM_SPEED'), bytes([l, h, rb(rng), rb(rng)])
    if k == 'dyn':
        l, h = train_addr()
        return addr, C('MSG_BM_DYN_STATE'), bytes([rb(rng), l, h, rng.randrange(1, 6), rb(rng)])
    if k == 'drive_manual':
        l, h = train_addr()
        return addr, C('MSG_CS_DRIVE_MANUAL'), bytes([l, h & 0x3F, rng.choice([0, 2, 3]), rng.randrange(64), rb(rng), rng.randrange(32), rb(rng), rb(rng), rb(rng)])
    if k == 'boost_stat':
        return addr, C('MSG_BOOST_STAT'), bytes([rng.choice(uplink.BOOST_OK + uplink.BOOST_ERR)])
    if k == 'boost_diag':
        ks = rng.sample([0, 1, 2], rng.randrange(1, 4))
        if rng.random() < 0.5:
            # the list is open-ended: reserved diagnostic types anywhere between the known ones (skipped, whatever follows still counts),
            # the same type twice (the later value stands), a dangling last byte
            ks = [rng.choice([0, 1, 2, 0, 1, 2, 3, 4, 0x10, 0x7F, 0x80, 0xFF]) for _ in range(rng.randrange(1, 9))]
            tail = bytes([rng.randrange(256)]) if rng.random() < 0.2 else b''
            return addr, C('MSG_BOOST_DIAGNOSTIC'), b''.join(bytes([x, rb(rng)]) for x in ks) + tail
        return addr, C('MSG_BOOST_DIAGNOSTIC'), b''.join(bytes([x, rb(rng)]) for x in ks)
    if k == 'acc_state':
        accs = [(a, 'b') for kk in ('points_board', 'signals_board') for a in ((b or {}).get(kk) or [])]
        if accs and rng.random() < 0.85:
            a = rng.choice(accs)[0]
            num = a['number']
            asp = rng.choice(a['aspects'])[1] if rng.random() < 0.8 else rng.randrange(128)
        else:
            num, asp = rng.randrange(128), rng.randrange(128)
        return addr, rng.choice([C('MSG_ACCESSORY_STATE'), C('MSG_ACCESSORY_NOTIFY')]), bytes([num, asp, rng.randrange(1, 9), rng.choice([0, 1, 2, 3, 0x80]), rb(rng)])
    if k in ('acc_ack', 'acc_manual'):
        accs = [a for kk in ('points_dcc', 'signals_dcc') for a in ((b or {}).get(kk) or [])]
        if accs and rng.random() < 0.85:
            a = rng.choice(accs)
            l, h = a['addr'][1], a['addr'][0]
        else:
            l, h = rng.randrange(256), rng.randrange(0x40)
        if k == 'acc_ack':
            return addr, C('MSG_CS_ACCESSORY_ACK'), bytes([l, h, rng.randrange(5)])
        return addr, C('MSG_CS_ACCESSORY_MANUAL'), bytes([l, h, rb(rng)])
    if k in ('lc_stat', 'lc_wait'):
        ps = (b or {}).get('peripherals') or []
        if ps and rng.random() < 0.85:
            p = rng.choice(ps)
            p0, p1 = p['port'][1], p['port'][0]
            val = rng.choice(p['aspects'])[1] if rng.random() < 0.8 else rb(rng)
        else:
            p0, p1, val = rb(rng), rb(rng), rb(rng)
        if k == 'lc_stat':
            return addr, C('MSG_LC_STAT'), bytes([p0, p1, val])
        return addr, C('MSG_LC_WAIT'), bytes([p0, p1, rb(rng)])
    segs = (b or {}).get('segments') or []
    num = rng.choice(segs)['address'] if segs and rng.random() < 0.85 else rng.randrange(200, 250)
    if k == 'occ':
        return addr, C('MSG_BM_OCC'), bytes([num])
    if k == 'free':
        return addr, C('MSG_BM_FREE'), bytes([num])
    if k == 'multiple':
        base = 8 * rng.randrange(0, 24)
        size = 8 * rng.randrange(1, 17)
        return addr, C('MSG_BM_MULTIPLE'), bytes([base, size]) + bytes(rng.choice([0, 0xFF, rng.randrange(256)]) for _ in range(size // 8))
    if k == 'address':
        if rng.random() < 0.2:
            pairs = [(0, 0)]
        else:
            pairs = []
            for _ in range(rng.randrange(1, 5)):
                l, h = train_addr()
                h = (h & 0x3F) | rng.choice([0x00, 0x80, 0x00, 0x80, 0x40, 0xC0])
                pairs.append((l, h))
        return addr, C('MSG_BM_ADDRESS'), bytes([num]) + b''.join(bytes(p) for p in pairs)
    if k == 'confidence':
        return addr, C('MSG_BM_CONFIDENCE'), bytes([rng.choice([0, 1, 0xFF]), rng.choice([0, 1]), rng.choice([0, 7])])
    if k == 'current':
        return addr, C('MSG_BM_CURRENT'), bytes([num, rb(rng)])
    revs = (b or {}).get('reversers') or []
    name = rng.choice(revs)['cv'].encode() if revs and rng.random() < 0.85 else b'4711'
    if revs and rng.random() < 0.3:
        # names that are NOT the configured CV but close to it: a prefix, an extension, the empty name, a different last character
        cv = rng.choice(revs)['cv'].encode()
        name = rng.choice([cv[:-1], cv[:1], b'', cv + b'0', cv + cv, cv[:-1] + bytes([cv[-1] ^ 1]), b'0' + cv])
    val = rng.choice([b'0', b'3', b'1', b'30', b'03', b'9'])
    return addr, C('MSG_VENDOR'), bytes([len(name)]) + name + bytes([len(val)]) + val

def field_sweep(rng, m, cfg, nodes, ntemplates=8, values=None):
    """Systematic hostile-but-well-formed feedback: valid messages about EXISTING equipment (templates from gen_feedback) in which one
    data byte at a time takes every value 0..255 - enumerations outside their tables (dynamic-state numbers, ack codes, execution
    states, formats ...), lengths, counts, all with the real node / number / port / DCC address in the other bytes. Used by the checks
    whose statement covers out-of-range field values (C11 lock balance on the receiver thread, C12 memory safety)."""
    out = []
    for _ in range(ntemplates):
        ad, t, data = gen_feedback(rng, m, cfg, nodes)
        if t in (C('MSG_NODE_LOST'), C('MSG_NODE_NEW')) or not data:
            continue
        pos = rng.randrange(len(data))
        for v in (values or range(256)):
            d2 = bytearray(data)
            d2[pos] = v
            out.append((ad, t, bytes(d2)))
    return out

def gen_command(rng, m, cfg):
    """a user command with optimistic state effect -> (scenario line, hook or None)"""
    conn = [b for b in cfg['boards'] if m.connected(b['id'])]
    tos = [b for b in conn if cfggen.is_track_output(b)]
    r = rng.random()
    if r < 0.35 and cfg['trains'] and tos:
        t = rng.choice(cfg['trains'])
        to = rng.choice(tos)
        return call('bidib_set_train_speed', S_(t['id']), rng.randrange(-126, 127), S_(to['id'])), None
    if r < 0.6 and cfg['trains'] and tos:
        t = rng.choice(cfg['trains'])
        ps = t.get('peripherals') or []
        if ps:
            p = rng.choice(ps)
            return call('bidib_set_train_peripheral', S_(t['id']), S_(p['id']), rng.randrange(2), S_(rng.choice(tos)['id'])), None
    if r < 0.8:
        accs = [(a, kind, b) for b in conn for kind in ('points_dcc', 'signals_dcc') for a in (b.get(kind) or [])]
        if accs:
            a, kind, b = rng.choice(accs)
            asp = rng.choice(a['aspects'])[0]
            fn = 'bidib_switch_point' if kind == 'points_dcc' else 'bidib_set_signal'
            return call(fn, S_(a['id']), S_(asp)), (lambda mm, i=a['id'], x=asp: mm.set_dcc_state_id(i, x))
    if r < 0.9:
        # the user's own low-level DCC accessory command: every data / time byte (coil, "output controls timing", time unit, switch time)
        accs = [(a, b) for b in conn for kind in ('points_dcc', 'signals_dcc') for a in (b.get(kind) or [])]
        if accs:
            a, b = rng.choice(accs)
            ad = m.addr[b['id']]
            # a raw port command says nothing about an aspect: the accessory's aspect name is unknown afterwards (the model must not demand
            # that the name of an earlier high-level command survives)
            return call('bidib_send_cs_accessory', ad[0], ad[1], ad[2], a['addr'][1], a['addr'][0], 0, rb(rng), rb(rng), 0), (lambda mm, i=a['id']: mm.set_dcc_state_id(i, 'unknown'))
    if cfg['trains'] and tos:
        t = rng.choice(cfg['trains'])
        to = rng.choice(tos)
        ad = m.addr[to['id']]
        toks = [ad[0], ad[1], ad[2], t['addr'][1], t['addr'][0], 0, rng.choice([0, 2, 3]), rng.randrange(64), rb(rng), rng.randrange(32), rb(rng), rb(rng), rb(rng), 0]
        return call('bidib_send_cs_drive', *toks), None
    return None, None

def gen_scenario(ctx, k):
    rng = ctx.sub_rng('c07', k)
    cfg = cfggen.gen_config(rng, nboards=rng.randrange(1, 5))
    d = cfggen.write_config(cfg, cfg_dir(f'{k}'))
    nodes = cfggen.assign_tree(rng, cfg, absent_prob=0.15)
    m = statemodel.Model(cfg, nodes)
    sc = Scn(seed=ctx.seed * 43 + k, watchdog=240000)
    sc.add(*cfggen.bus_lines(cfg, nodes), 'bus brackets 1')
    if rng.random() < 0.4:
        # feedback that arrives while bidib_start_pointer is still running (after the system was enabled: every board is registered, the state
        # has been reset): it counts like any other message received since the reset
        for _ in range(rng.randrange(1, 4)):
            addr, t, data = gen_feedback(rng, m, cfg, nodes)
            # only entities that start-up itself does not command (occupancy, boosters): for trains and accessories the order of the receiver's
            # update and the main thread's own optimistic update of the initial values would be ambiguous in the log
            if t in (C('MSG_BM_OCC'), C('MSG_BM_FREE'), C('MSG_BM_MULTIPLE'), C('MSG_BM_ADDRESS'), C('MSG_BM_CONFIDENCE'), C('MSG_BM_CURRENT'), C('MSG_BOOST_STAT'), C('MSG_BOOST_DIAGNOSTIC')):
                sc.add(f'bus inject {C("MSG_SYS_ENABLE"):02x} 1 {model.build_msg(addr, 0, t, data).hex()}')
    sc.add(f'start {d} 0', 'quiesce', 'snap s0')
    hooks = {}
    ncorrupt = [0]
    nmsg = rng.randrange(5, 120)
    for i in range(nmsg):
        if rng.random() < 0.2:
            line, hook = gen_command(rng, m, cfg)
            if line:
                sc.add(line, 'flush', 'quiesce')
                if hook:
                    hooks[f'h{i}'] = hook
                    sc.add(f'mark h{i}')
        else:
            # one packet: 1-4 feedback messages with arbitrary sequence numbers (an unexpected number must not drop anything); one packet in
            # ten arrives with a broken CRC and must then have no effect at all (C02, observed through the getters)
            msgs = []
            for _ in range(1 if rng.random() < 0.7 else rng.randrange(2, 5)):
                addr, t, data = gen_feedback(rng, m, cfg, nodes)
                msgs.append(model.build_msg(addr, rng.choice([0, 0, rng.randrange(256)]), t, data))
            if rng.random() < 0.1:
                fr = bytearray(model.frame(b''.join(msgs)))
                for _try in range(20):
                    pos = rng.randrange(1, len(fr) - 1)
                    cand = bytearray(fr)
                    cand[pos] ^= 1 << rng.randrange(8)
                    if cand[pos] in (0xFE, 0xFD) or fr[pos] in (0xFE, 0xFD) or (pos > 0 and fr[pos - 1] == 0xFD):
                        continue
                    good = [p_ for p_ in model.lenient_deframe(bytes(cand)) if p_[0] is not None]
                    if not good:
                        sc.add(raw(list(cand)), 'quiesce')
                        ncorrupt[0] += 1
                        break
            else:
                sc.add(up(*msgs), 'quiesce')
                if rng.random() < 0.1:
                    sc.add(up(*msgs), 'quiesce')          # the peer repeats a report: applying it twice is what the fold says too
        if rng.random() < 0.4:
            sc.add(f'snap s{i + 1}')
    sc.add('snap end', 'stop')
    return sc.text(), cfg, nodes, hooks

def evaluate(ctx, r, cfg, nodes, hooks, meta):
    if ctx.generic_failures(r, meta):
        return
    if runner.outcome(r) != 'ok':
        return
    begin, ret_i = fold.session_start_index(r.events)
    if ret_i is None or r.events[ret_i].get('r') != 0:
        ctx.violation('start-failed', 'valid-config', 'bidib_start_pointer did not return 0 for a generated valid configuration', r.scenario, r.flavour, meta)
        return
    m = statemodel.Model(cfg, nodes)
    bad = []
    nsnap = [0]
    changed = [0]
    last = [None]

    def on_snap(mm, e):
        nsnap[0] += 1
        diffs = statemodel.compare_state(mm, e['state']) + statemodel.compare_single(mm, e)
        if diffs and not bad:
            bad.append((e.get('tag'), diffs))
        dg = hashlib.sha1(repr(sorted(e['state'].items())).encode()).hexdigest()
        if last[0] is not None and dg != last[0]:
            changed[0] += 1
        last[0] = dg
    fold.fold(m, r.events, begin, hooks, on_snap)
    ctx.evaluations += 1
    ctx.count('snapshots_compared', nsnap[0])
    ctx.count('feedback_during_startup', sum(1 for e in r.events if e.get('e') == 'up' and e.get('injected')))
    ctx.count('bad_crc_packets_without_effect', r.scenario.count('\nraw '))
    ctx.count('multi_message_packets', sum(1 for e in r.events if e.get('e') == 'up' and len(fold.packets_of([e]).get(e['pkt'], [])) > 1))
    if bad:
        tag, diffs = bad[0]
        path, exp, got = diffs[0]
        field = '.'.join(p for p in path.split('.') if not any(ch.isdigit() for ch in p)) or path
        ctx.violation('state-mismatch', field, f'snapshot {tag}: {path} is {got}, the fold of the received messages says {exp} '
                      f'({len(diffs)} differing fields, e.g. {diffs[:3]})', r.scenario, r.flavour, meta)
        return
    if changed[0]:
        ctx.nontrivial.add(meta['digest'])

def run(ctx):
    ctx.rule = ('generated valid configurations (1-4 boards, all section kinds) x node trees (some boards absent) x histories of 5-120 state-bearing '
                'uplink messages with full value ranges (every current/voltage code, exec/ack codes, address lists incl. the free form and accessory '
                'entries, unknown node/number/port/address variants) interleaved with drive / DCC-accessory commands; snapshots of every getter at '
                'random points and at the end. non-trivial = distinct (config, history) in which the observed state changed between snapshots')
    ctx.assumptions = ['reference fold vlib/statemodel.py (bidib_messages.h layouts, header docs, DESIGN.md appendix A)',
                       'undocumented initial values of DCC accessories (coil_on, timing flag, ack) are not constrained until first written',
                       'segment number 255 in MULTIPLE ranges and function bits 5-7 are not generated']
    jobs = []
    for k in range(ctx.n(300, 12000)):
        text, cfg, nodes, hooks = gen_scenario(ctx, k)
        jobs.append((text, cfg, nodes, hooks))
    res = runner.run_many('asan', [(i, j[0]) for i, j in enumerate(jobs)], timeout=600)
    for j, r in zip(jobs, res):
        meta = {'digest': hashlib.sha1(j[0].encode()).hexdigest()[:12], 'boards': len(j[1]['boards']), 'trains': len(j[1]['trains'])}
        evaluate(ctx, r, j[1], j[2], j[3], meta)
    ctx.sample({'boards': len(jobs[0][1]['boards']), 'history': [l for l in jobs[0][0].split('\n') if l.startswith(('up ', 'call '))][:10]})
    return ctx.finish(min_eval=50, min_nontrivial=20)
