"""C08 - train presence / position / orientation always agree with the segment address lists.
Sequential oracle: a full snapshot after every processed occupancy message must be internally consistent and equal the reference
fold. Concurrent oracle (history + model): the state sequence S0,S1,... is known (single receiver, one message per packet); every
result of a concurrently running getter must equal, entity by entity, the value in some Si with lo <= i <= hi, and the index
matched for train data must not be smaller than the one matched for the segment data it derives from."""
import hashlib
import os

from .. import cfggen, fold, model, runner, statemodel, sweep
from ..model import C
from ..scen import Scn, up
from .C07 import cfg_dir

def gen_cfg(rng):
    cfg = cfggen.gen_config(rng, nboards=rng.randrange(1, 5), rich=False, with_initial=False, max_trains=6)
    # make sure there are segments and trains
    ids = 0
    for b in cfg['boards']:
        if not b.get('segments'):
            n = rng.randrange(1, 12)
            addrs = rng.sample(range(0, 120), n)
            b['segments'] = [{'id': f'xseg{ids + i}_{b["id"]}', 'address': a, 'length': '10cm'} for i, a in enumerate(addrs)]
    taken = {tuple(t['addr']) for t in cfg['trains']} | {tuple(a['addr']) for b in cfg['boards'] for kk in ('points_dcc', 'signals_dcc') for a in (b.get(kk) or [])}
    while len(cfg['trains']) < 2:
        k = len(cfg['trains'])
        ad = (0x3F - k, 0xF0 - k)
        while ad in taken:                       # generated addresses are random: the fixed extra ones must not collide with them
            ad = (ad[0], (ad[1] - 7) % 256 or 1)
        taken.add(ad)
        cfg['trains'].append({'id': f'xtrain{k}', 'addr': ad, 'steps': 28, 'calibration': None, 'peripherals': None})
    return cfg

def gen_bm(rng, m, cfg):
    conn = [b for b in cfg['boards'] if m.connected(b['id']) and b.get('segments')]
    if not conn:
        return None
    b = rng.choice(conn)
    addr = m.addr[b['id']]
    seg = rng.choice(b['segments'])
    num = seg['address'] if rng.random() < 0.9 else rng.randrange(200, 250)
    k = rng.random()
    if rng.random() < 0.06:
        # the detector's confidence changes (void / freeze / no signal): it says nothing about occupancy or addresses, which keep their rules
        return addr, C('MSG_BM_CONFIDENCE'), bytes([rng.choice([0, 1, 0xFF]), rng.choice([0, 1]), rng.choice([0, 7])])
    if k < 0.15:
        return addr, C('MSG_BM_OCC'), bytes([num])
    if k < 0.3:
        return addr, C('MSG_BM_FREE'), bytes([num])
    if k < 0.45:
        base = 8 * (num // 8)
        size = 8 * rng.randrange(1, 5)
        return addr, C('MSG_BM_MULTIPLE'), bytes([base, size]) + bytes(rng.choice([0, 0xFF, rng.randrange(256)]) for _ in range(size // 8))
    if rng.random() < 0.15:
        pairs = [(0, 0)]
    else:
        pairs = []
        for _ in range(rng.randrange(1, 4)):
            if rng.random() < 0.85:
                t = rng.choice(cfg['trains'])
                l, h = t['addr'][1], t['addr'][0]
            else:
                l, h = rng.randrange(256), rng.randrange(0x40)
            pairs.append((l, (h & 0x3F) | rng.choice([0x00, 0x80, 0x00, 0x80, 0x40])))
    return addr, C('MSG_BM_ADDRESS'), bytes([num]) + b''.join(bytes(p) for p in pairs)

def gen_seq(ctx, k):
    rng = ctx.sub_rng('c08', k)
    cfg = gen_cfg(rng)
    d = cfggen.write_config(cfg, cfg_dir(f'c08_{k}'))
    nodes = cfggen.assign_tree(rng, cfg, absent_prob=0.1)
    m = statemodel.Model(cfg, nodes)
    sc = Scn(seed=ctx.seed * 47 + k, watchdog=240000)
    sc.add(*cfggen.bus_lines(cfg, nodes), 'bus brackets 1', f'start {d} 0', 'quiesce', 'snap s0')
    n = rng.randrange(10, 80)
    lost_at = rng.randrange(3, n) if n > 4 and rng.random() < 0.4 else -1
    reset_at = rng.randrange(3, n) if lost_at < 0 and n > 4 and rng.random() < 0.35 else -1
    for i in range(n):
        if i == reset_at:
            # the application re-reads the bus in mid-session (bidib_send_sys_reset): everything tracked starts again from the initial state -
            # occupancy, address lists AND the trains derived from them
            sc.add('reset', 'quiesce', 'flush', 'quiesce', f'snap reset{i}')
        if i == lost_at:
            # a detector board drops off the bus while trains stand on its segments: whatever the library does with those segments, the
            # trains must keep agreeing with the address lists (and nothing else is specified to change)
            conn = [b for b in cfg['boards'] if m.connected(b['id']) and m.addr[b['id']] != (0, 0, 0) and b.get('segments')]
            if conn:
                L = rng.choice(conn)
                a = m.addr[L['id']]
                dpt = 1 if a[1] == 0 else 2 if a[2] == 0 else 3
                parent = tuple(list(a[:dpt - 1]) + [0] * (3 - (dpt - 1)))
                data = bytes([2, a[dpt - 1]]) + L['uid']
                # the last thing it reports is about one segment ...
                seg_ = rng.choice(L['segments'])
                t0 = rng.choice(cfg['trains'])
                before = model.build_msg(a, 0, C('MSG_BM_ADDRESS'), bytes([seg_['address'], t0['addr'][1], t0['addr'][0] & 0x3F]))
                sc.add(up(before), 'quiesce', f'snap pre{i}')
                m.on_uplink(parent, C('MSG_NODE_LOST'), data)
                sc.add(f'bus delnode {a[0]}.{a[1]}.{a[2]}', up(model.build_msg(parent, 0, C('MSG_NODE_LOST'), data)), 'quiesce', 'flush', 'quiesce', f'snap lost{i}')
                # ... and whoever sends from that address afterwards (about the same detector number) is an unknown node, or - when another
                # configured detector logs on there - that other board: nothing of it is booked to the board that left
                others = [b for b in cfg['boards'] if not m.connected(b['id']) and b is not L and b.get('segments') and not cfggen.is_interface(b)]
                if others and rng.random() < 0.5:
                    O = rng.choice(others)
                    nd = bytes([3, a[dpt - 1]]) + O['uid']
                    m.on_uplink(parent, C('MSG_NODE_NEW'), nd)
                    sc.add(f'bus node {a[0]}.{a[1]}.{a[2]} {O["uid"].hex()}', up(model.build_msg(parent, 0, C('MSG_NODE_NEW'), nd)), 'quiesce', 'flush', 'quiesce')
                for rep in (bytes([seg_['address']]), bytes([seg_['address'], 0, 0])):
                    sc.add(up(model.build_msg(a, 0, C('MSG_BM_FREE') if len(rep) == 1 else C('MSG_BM_ADDRESS'), rep)), 'quiesce', f'snap after{i}_{len(rep)}')
        msgs = []
        for _ in range(1 if rng.random() < 0.8 else rng.randrange(2, 4)):
            g = gen_bm(rng, m, cfg)
            if g:
                msgs.append(model.build_msg(g[0], rng.choice([0, 0, rng.randrange(256)]), g[1], g[2]))
        if not msgs:
            break
        sc.add(up(*msgs), 'quiesce', f'snap s{i + 1}')
        if rng.random() < 0.08:
            sc.add(up(*msgs), 'quiesce', f'snap r{i + 1}')          # the detector repeats its report
    sc.add('stop')
    return sc.text(), cfg, nodes

def intrinsic(snap, cfg):
    """consistency of one snapshot with itself -> list of problems"""
    probs = []
    st = snap['state']
    single = snap.get('single', {})
    for t in cfg['trains']:
        key = (t['addr'][1], t['addr'][0])
        listing = [(s['id'], a['type']) for s in st['segments'] for a in (s.get('addrs') or []) if (a['l'], a['h']) == key]
        ts = next((x for x in st['trains'] if x['id'] == t['id']), None)
        if ts is None:
            probs.append(f'train {t["id"]} missing')
            continue
        if bool(ts['on_track']) != bool(listing):
            probs.append(f'train {t["id"]}: on_track={ts["on_track"]} but segments listing its address: {[x[0] for x in listing]}')
        pos = single.get('trainpos:' + t['id'], {}).get('segments') or []
        if sorted(pos) != sorted(x[0] for x in listing):
            probs.append(f'train {t["id"]}: position {pos} != segments listing its address {[x[0] for x in listing]}')
        if listing:
            ok = {0 if ty == 0 else 1 for (_s, ty) in listing}
            if ts['orientation'] not in ok:
                probs.append(f'train {t["id"]}: orientation {ts["orientation"]} not among the orientations reported with its address {sorted(ok)}')
    for s in st['segments']:
        if not s['occupied'] and s.get('addrs'):
            pass   # an address report for a segment that is not (yet) reported occupied is legitimate
    return probs

def eval_seq(ctx, r, cfg, nodes, meta):
    if ctx.generic_failures(r, meta):
        return
    if runner.outcome(r) != 'ok':
        return
    begin, ret_i = fold.session_start_index(r.events)
    if ret_i is None or r.events[ret_i].get('r') != 0:
        ctx.inconclusive.append('start failed')
        return
    m = statemodel.Model(cfg, nodes)
    bad = []
    seen_on = [0]

    def on_snap(mm, e):
        probs = intrinsic(e, cfg)
        diffs = [] if probs else (statemodel.compare_state(mm, e['state']) + statemodel.compare_single(mm, e))
        if any(t['on_track'] for t in e['state']['trains']):
            seen_on[0] += 1
        ctx.count('snapshots_checked')
        if (probs or diffs) and not bad:
            bad.append((e.get('tag'), probs, diffs))
    fold.fold(m, r.events, begin, None, on_snap, reset_restores_initial=True)
    ctx.evaluations += 1
    if bad:
        tag, probs, diffs = bad[0]
        if probs:
            ctx.violation('inconsistent', 'train-vs-segments', f'snapshot {tag}: {probs[0]}', r.scenario, r.flavour, meta)
        else:
            path = diffs[0][0]
            field = '.'.join(p for p in path.split('.') if not any(ch.isdigit() for ch in p)) or path.split(':')[0]
            ctx.violation('model-mismatch', field, f'snapshot {tag}: {diffs[0][0]} is {diffs[0][2]}, reference fold says {diffs[0][1]}', r.scenario, r.flavour, meta)
        return
    if seen_on[0]:
        ctx.nontrivial.add(meta['digest'])

# ---------------------------------------------------------------- concurrent readers
def gen_conc(ctx, k):
    rng = ctx.sub_rng('c08c', k)
    cfg = gen_cfg(rng)
    d = cfggen.write_config(cfg, cfg_dir(f'c08c_{k}'))
    nodes = cfggen.assign_tree(rng, cfg, absent_prob=0.0)
    m = statemodel.Model(cfg, nodes)
    sc = Scn(seed=ctx.seed * 53 + k, perturb=rng.choice([0, 100, 300]), watchdog=240000)
    sc.add(*cfggen.bus_lines(cfg, nodes), 'bus brackets 1', f'start {d} 0', 'quiesce', 'mark conc_begin')
    nr = rng.choice([2, 3, 4, 8])
    n = rng.randrange(30, 120)
    sc.add(f'par {nr + 1}')
    for i in range(n):
        g = gen_bm(rng, m, cfg)
        if not g:
            break
        sc.add('t 0 ' + up(model.build_msg(g[0], 0, g[1], g[2])))
        if rng.random() < 0.5:
            sc.add(f't 0 sleepreal {rng.randrange(20, 300)}')
    segs = [s['id'] for b in cfg['boards'] for s in (b.get('segments') or [])]
    for t in range(1, nr + 1):
        for i in range(n):
            r_ = rng.random()
            if r_ < 0.4:
                sc.add(f't {t} get train {rng.choice(cfg["trains"])["id"]}')
            elif r_ < 0.7 and segs:
                sc.add(f't {t} get segment {rng.choice(segs)}')
            else:
                sc.add(f't {t} get state x')
            if rng.random() < 0.3:
                sc.add(f't {t} yield')
    sc.add('endpar', 'quiesce', 'snap end', 'stop')
    return sc.text(), cfg, nodes

def gen_directed(ctx, k):
    """directed preemption: the receiver is paused at the j-th scheduling point of its processing of ONE report (j sweeps over lock
    operations and library function entries); the main thread then calls the getters and releases it. The getter results must be
    the state before or after that report, and train data must not be older than the segment data (same oracle as the concurrent part)."""
    rng = ctx.sub_rng('c08d', k)
    cfg = gen_cfg(rng)
    d = cfggen.write_config(cfg, cfg_dir(f'c08d_{k}'))
    nodes = cfggen.assign_tree(rng, cfg, absent_prob=0.0)
    m = statemodel.Model(cfg, nodes)
    sc = Scn(seed=ctx.seed * 59 + k, perturb=0, watchdog=240000)
    sc.add(*cfggen.bus_lines(cfg, nodes), 'bus brackets 1', f'start {d} 0', 'quiesce', 'mark conc_begin')
    segs = [s['id'] for b in cfg['boards'] for s in (b.get('segments') or [])]
    fn = bool(k % 2)
    kmax = 70 if fn else 14
    n = rng.randrange(40, 100)
    for i in range(n):
        g = gen_bm(rng, m, cfg)
        if not g:
            break
        j = 1 + (i * 7 + k) % kmax if rng.random() < 0.7 else rng.randrange(1, kmax + 1)
        sc.add(f'pause recv {j}' + (' fn' if fn else ''), up(model.build_msg(g[0], 0, g[1], g[2])), 'waitpaused')
        for _ in range(rng.randrange(1, 3)):
            r_ = rng.random()
            if r_ < 0.3:
                sc.add(f'get train {rng.choice(cfg["trains"])["id"]}')
            elif r_ < 0.5 and segs:
                sc.add(f'get segment {rng.choice(segs)}')
            else:
                sc.add('get state x')
        sc.add('release', 'quiesce')
    sc.add('snap end', 'stop')
    return sc.text(), cfg, nodes

def eval_conc(ctx, r, cfg, nodes, meta):
    if ctx.generic_failures(r, meta):
        return
    if runner.outcome(r) != 'ok':
        return
    begin, ret_i = fold.session_start_index(r.events)
    if ret_i is None or r.events[ret_i].get('r') != 0:
        ctx.inconclusive.append('start failed')
        return
    ev = r.events
    cb = next((i for i, e in enumerate(ev) if e.get('e') == 'mark' and e.get('m') == 'conc_begin'), None)
    if cb is None:
        return
    m = statemodel.Model(cfg, nodes)
    fold.fold(m, ev, begin, None, None, stop_at=cb)
    pk = fold.packets_of(ev)
    # state sequence: S[0] before the first concurrent packet, S[j] after the j-th consumed packet
    S = [m.clone()]
    cons_n = []      # n of rxc per state index j>=1
    done_n = []      # n of rxdone per state index
    pushed_n = []    # n of the 'up' event per packet in push order
    order = []
    for e in ev[cb:]:
        if e.get('e') == 'up':
            pushed_n.append(e.get('np', e['n']))
        elif e.get('e') == 'rxc':
            for pm in pk.get(e['pkt'], []):
                m.on_uplink(pm['addr'], pm['type'], pm['data'])
            S.append(m.clone())
            cons_n.append(e['n'])
            order.append(e['pkt'])
        elif e.get('e') == 'rxdone':
            done_n.append(e['n'])
    ctx.evaluations += 1
    gets = [e for e in ev[cb:] if e.get('e') == 'get']
    distinct_idx = set()

    def window(e):
        lo = sum(1 for x in done_n if x < e['n0'])
        hi = sum(1 for x in pushed_n if x < e['n1'])
        return lo, min(hi, len(S) - 1)

    def train_view(mm, tid):
        ts = mm.st['trains'][tid]
        return (ts['on_track'], tuple(sorted(ts['position'])), frozenset(ts['orientations_ok']))

    for e in gets:
        lo, hi = window(e)
        if e['kind'] == 'segment':
            for key, q in ((k_, v_) for k_, v_ in e['r'].items() if not k_.startswith('index:')):
                sid = key.split(':', 1)[1]
                got = (q.get('occupied'), tuple((a['l'], a['h'], a['type']) for a in (q.get('addrs') or [])))
                cand = [i for i in range(lo, hi + 1) if (S[i].st['segments'][sid]['occupied'], tuple(tuple(x) for x in S[i].st['segments'][sid]['addrs'])) == got]
                if not cand:
                    ctx.violation('never-existed', 'segment', f'bidib_get_segment_state({sid}) returned {got}, which is the value in none of the states '
                                  f'S{lo}..S{hi} that existed during the call', r.scenario, r.flavour, meta)
                    return
                distinct_idx.add(('seg', cand[0] - lo))
        elif e['kind'] == 'train':
            rr = e['r']
            tid = next(k.split(':', 1)[1] for k in rr if k.startswith('train:'))
            tq = rr['train:' + tid]
            pos = tuple(sorted(rr.get('trainpos:' + tid, {}).get('segments') or []))
            c1 = [i for i in range(lo, hi + 1) if S[i].st['trains'][tid]['on_track'] == tq.get('on_track') and tq.get('orientation') in S[i].st['trains'][tid]['orientations_ok']]
            c2 = [i for i in range(lo, hi + 1) if tuple(sorted(S[i].st['trains'][tid]['position'])) == pos]
            if not c1 or not c2:
                ctx.violation('never-existed', 'train', f'getter results for train {tid} (on_track={tq.get("on_track")}, orientation={tq.get("orientation")}, position={pos}) '
                              f'match none of the states S{lo}..S{hi}', r.scenario, r.flavour, meta)
                return
            distinct_idx.add(('train', c1[0] - lo))
        elif e['kind'] == 'state':
            st = e['state']
            segv = tuple((s['id'], s['occupied'], tuple((a['l'], a['h'], a['type']) for a in (s.get('addrs') or []))) for s in st['segments'])
            cseg = [i for i in range(lo, hi + 1) if tuple((sid, S[i].st['segments'][sid]['occupied'], tuple(tuple(x) for x in S[i].st['segments'][sid]['addrs'])) for sid in S[i].order['segments']) == segv]
            if not cseg:
                ctx.violation('torn', 'segments', f'the segment part of bidib_get_state() equals none of the states S{lo}..S{hi} (half-updated or torn)', r.scenario, r.flavour, meta)
                return
            ctr = [i for i in range(lo, hi + 1) if all(S[i].st['trains'][t['id']]['on_track'] == t['on_track'] and t['orientation'] in S[i].st['trains'][t['id']]['orientations_ok'] for t in st['trains'])]
            if not ctr:
                ctx.violation('torn', 'trains', f'the train part of bidib_get_state() equals none of the states S{lo}..S{hi}', r.scenario, r.flavour, meta)
                return
            if max(ctr) < min(cseg):
                ctx.violation('lag', 'trains-behind-segments', f'bidib_get_state(): train data is from S{max(ctr)} at best while the segment data is from S{min(cseg)} at the earliest: '
                              f'derived values lag behind the segment data', r.scenario, r.flavour, meta)
                return
            distinct_idx.add(('state', min(cseg) - lo, max(ctr) - min(cseg)))
    ctx.count('concurrent_getter_results', len(gets))
    ctx.count('state_sequence_length', len(S))
    for d_ in distinct_idx:
        ctx.add_set('distinct_window_offsets', d_)
    if len(gets) > 10 and len(S) > 10:
        ctx.nontrivial.add(meta['digest'])

def run(ctx):
    ctx.rule = ('1-4 boards, 1-40 segments, 2-6 trains, occupied/free/multiple/address reports (trains spanning segments, several per segment, unknown '
                'addresses, accessory-type entries, the free form); sequential: full snapshot after every message; concurrent: 2-8 reader threads calling '
                'train/segment/whole-state getters while a feeder delivers reports (asan+tsan). non-trivial = distinct history with a train on track '
                '(sequential) / >10 getter results against >10 states (concurrent)')
    ctx.assumptions = ['single receiver thread and one message per packet make the state sequence known', 'processing of packet j lies between its rxc and rxdone events',
                       'reference fold vlib/statemodel.py']
    jobs = []
    for k in range(ctx.n(150, 8000)):
        text, cfg, nodes = gen_seq(ctx, k)
        jobs.append(('asan', 'seq', text, cfg, nodes))
    for k in range(ctx.n(40, 1500)):
        text, cfg, nodes = gen_conc(ctx, k)
        jobs.append(('tsan' if k % 2 else 'asan', 'conc', text, cfg, nodes))
    for k in range(ctx.n(40, 1500)):
        text, cfg, nodes = gen_directed(ctx, k)
        jobs.append(('mon' if k % 4 < 2 else 'asan', 'directed', text, cfg, nodes))
    for fl in ('asan', 'tsan', 'mon'):
        js = [j for j in jobs if j[0] == fl]
        res = runner.run_many(fl, [(i, j[2]) for i, j in enumerate(js)], timeout=600)
        for j, r in zip(js, res):
            meta = {'kind': j[1], 'digest': hashlib.sha1(j[2].encode()).hexdigest()[:12]}
            (eval_seq if j[1] == 'seq' else eval_conc)(ctx, r, j[3], j[4], meta)
            if j[1] == 'directed':
                sweep.pause_stats(ctx, r.events, 'directed')
    ctx.sample({'history': [l for l in jobs[0][2].split('\n') if l.startswith('up ')][:8]})
    return ctx.finish(min_eval=50, min_nontrivial=20)
