"""C16 - lifecycle: safe shutdown sequence, threads joined exactly once, no leaks, restartable, every session behaves like the first.
Oracles: stop transcript vs. model (soft-stop -> all-zero drive per train -> off, per connected track output, nothing after);
thread monitor (create/join bookkeeping at link time); heap conservation over repeated identical sessions (ASan allocator
statistics + LSan); session equivalence: a scripted probe session as session k equals the same session in a fresh process."""
import hashlib

from .. import cfggen, fold, model, runner, statemodel, uplink
from ..model import C
from ..scen import Scn, call, up, s as S_
from .C07 import cfg_dir, gen_feedback, gen_command

def probe_steps(rng_seed, cfg, nodes):
    import random
    rng = random.Random(rng_seed)
    m = statemodel.Model(cfg, nodes)
    lines = []
    for i in range(25):
        if rng.random() < 0.25:
            line, hook = gen_command(rng, m, cfg)
            if line:
                lines += [line, 'flush', 'quiesce']
        else:
            addr, t, data = gen_feedback(rng, m, cfg, nodes)
            # flush as well: feedback can make the library queue a request (e.g. ACCESSORY_GET after a NOTIFY) whose answer changes state
            lines += [up(model.build_msg(addr, 0, t, data)), 'quiesce', 'flush', 'quiesce']
    return lines

def session_lines(rng, kind, cfg_valid_dir, bad_dir, cfgA, nodesA, fi):
    """-> (lines, expect_start_ret)"""
    ls = ['bus clear']
    if kind == 'nodevice':
        ls += ['debug 0', f'start_serial /dev/no-such-serial-device {cfg_valid_dir} {fi}']
        return ls, 1
    if kind in ('normal', 'serial'):
        # 'serial': the same session through bidib_start_serial - the device "/dev/simbus" is served by the simulated bus (link-time open/read/write)
        startline = f'start {cfg_valid_dir} {fi}' if kind == 'normal' else f'start_serial /dev/simbus {cfg_valid_dir} {fi}'
        ls += cfggen.bus_lines(cfgA, nodesA) + ['bus brackets 1', f'bus cap {rng.choice([64, 100, 200])}', 'debug 0', startline, 'quiesce']
        m = statemodel.Model(cfgA, nodesA)
        for i in range(rng.randrange(0, 20)):
            if rng.random() < 0.3:
                line, hook = gen_command(rng, m, cfgA)
                if line:
                    ls += [line]
            else:
                addr, t, data = gen_feedback(rng, m, cfgA, nodesA)
                ls += [up(model.build_msg(addr, 0, t, data))]
        if rng.random() < 0.25:
            # the application re-reads the bus in mid-session (public bidib_send_sys_reset): what the session allocated until then is still the
            # library's to release
            ls += ['quiesce', 'reset', 'quiesce']
            for i in range(rng.randrange(0, 6)):
                addr, t, data = gen_feedback(rng, m, cfgA, nodesA)
                ls += [up(model.build_msg(addr, 0, t, data))]
        if rng.random() < 0.35:
            # a board (possibly a track output) drops off the bus during the session: the shutdown commands are for what is connected THEN
            conn = [b for b in cfgA['boards'] if m.connected(b['id']) and m.addr[b['id']] != (0, 0, 0)]

            def dep(a):
                return 1 if a[1] == 0 else 2 if a[2] == 0 else 3
            leaves = [b for b in conn if not any(o is not b and dep(m.addr[o['id']]) > dep(m.addr[b['id']]) and m.addr[o['id']][:dep(m.addr[b['id']])] == m.addr[b['id']][:dep(m.addr[b['id']])] for o in conn)]
            if leaves:
                tl = [b for b in leaves if cfggen.is_track_output(b)]
                L = rng.choice(tl or leaves)
                a = m.addr[L['id']]
                parent = tuple(list(a[:dep(a) - 1]) + [0] * (3 - (dep(a) - 1)))
                data = bytes([2, a[dep(a) - 1]]) + L['uid']
                m.on_uplink(parent, C('MSG_NODE_LOST'), data)
                ls += [f'bus delnode {a[0]}.{a[1]}.{a[2]}', up(model.build_msg(parent, 0, C('MSG_NODE_LOST'), data)), 'quiesce']
        # leave work pending: unanswered requests (held messages), unread queues
        if rng.random() < 0.5:
            ls += ['mark pending_node0', 'bus policy 19 never'] + [call('bidib_send_string_get', 0, 0, 0, 0, i, 0) for i in range(4)]
        if rng.random() < 0.5:
            ls += [up(model.build_msg((0, 0, 0), 0, C('MSG_SYS_PONG'), bytes([i]))) for i in range(rng.randrange(1, 140))]
        if rng.random() < 0.5:
            ls += ['quiesce']
        return ls, 0
    if kind == 'debug':
        ls += ['bus mode answer', 'bus node 0.0.0 80000d99000001', 'bus brackets 1', 'debug 1', f'start @null {fi}']
        ls += [call('bidib_send_sys_ping', 0, 0, 0, i, 0) for i in range(rng.randrange(0, 12))]
        ls += [up(model.build_msg((0, 0, 0), 0, C('MSG_SYS_PONG'), bytes([i]))) for i in range(rng.randrange(0, 10))]
        return ls, 0
    if kind == 'silent':
        ls += ['bus mode silent'] + ([f'bus idlefill {rng.choice(["fe", "55"])}'] if rng.random() < 0.5 else []) + ['debug 0', f'start {cfg_valid_dir} {fi}']
        return ls, 1
    if kind == 'silentnew':
        # the interface never answers the magic request, but announces a configured track output (MSG_NODE_NEW) while the library is probing:
        # the start fails with a board connected, "stopping after a failed start" has somebody to command
        tob = rng.choice([b for b in cfgA['boards'] if cfggen.is_track_output(b)])
        la = rng.randrange(1, 120)
        data = bytes([rng.randrange(1, 200), la]) + tob['uid']
        ls += ['bus mode silent', f'bus inject {C("MSG_SYS_GET_MAGIC"):02x} 1 {model.build_msg((0, 0, 0), 0, C("MSG_NODE_NEW"), data).hex()}', 'debug 0',
               f'mark failnew:{la}', f'start {cfg_valid_dir} {fi}' if rng.random() < 0.6 else f'start_serial /dev/simbus {cfg_valid_dir} {fi}']
        return ls, 1
    if kind == 'badcfg':
        ls += cfggen.bus_lines(cfgA, nodesA) + ['debug 0', f'start {bad_dir} {fi}']
        return ls, 1
    if kind == 'nullcb':
        ls += ['debug 0', f'start {cfg_valid_dir} {fi} nullread']
        return ls, 1
    raise KeyError(kind)

def gen_scenario(ctx, k):
    rng = ctx.sub_rng('c16', k)
    cfgA = cfggen.gen_config(rng, nboards=rng.randrange(1, 4), with_initial=True)
    if not any(cfggen.is_track_output(b) for b in cfgA['boards']):
        b = cfgA['boards'][0]
        b['uid'] = bytes([b['uid'][0] | 0x10]) + b['uid'][1:]
    if not cfgA['trains']:
        cfgA['trains'].append({'id': 'xt', 'addr': cfggen.free_dcc(cfgA, (0x3E, 0x21)), 'steps': 28, 'calibration': None, 'peripherals': None})
    dA = cfggen.write_config(cfgA, cfg_dir(f'c16_{k}'))
    nodesA = cfggen.assign_tree(rng, cfgA, absent_prob=0.1)
    # an invalid config: train with unsupported speed steps
    import copy
    bad = copy.deepcopy(cfgA)
    bad['trains'][0]['steps'] = 99
    dB = cfggen.write_config(bad, cfg_dir(f'c16_{k}_bad'))
    # the same boards, node tree and trains with the opposite SecAck setting and other feature values: what an earlier session learned about a node
    # address (or a board) must not leak into the next one
    alt = copy.deepcopy(cfgA)
    for b in alt['boards']:
        f = [(n_, (v_ + 1) % 256) for (n_, v_) in (b['features'] or []) if n_ != 3]
        if not cfggen.secack(b):
            f.append((3, 1))
        b['features'] = f or None
    dAlt = cfggen.write_config(alt, cfg_dir(f'c16_{k}_alt'))
    sc = Scn(seed=ctx.seed * 83 + k, watchdog=300000)
    sessions = []
    mode = rng.choice(['mixed', 'mixed', 'repeat'])
    if mode == 'repeat':
        # identical sessions back to back: heap conservation
        fi = rng.choice([0, 2])
        rs = rng.randrange(1 << 30)
        for i in range(6):
            import random
            r2 = random.Random(rs)
            ls, exp = session_lines(r2, 'normal', dA, dB, cfgA, nodesA, fi)
            sc.add(f'mark sess{i}', *ls, 'drain', 'stop', f'heap rep{i}')
            sessions.append(('normal', exp, fi))
    else:
        for i in range(rng.randrange(1, 6)):
            kind = rng.choice(['normal', 'normal', 'serial', 'serial', 'debug', 'silent', 'silentnew', 'silentnew', 'badcfg', 'nullcb', 'nodevice', 'othercfg', 'othercfg'])
            fi = rng.choice([0, 0, 1, 3])
            if kind == 'othercfg':
                ls, exp = session_lines(rng, 'normal', dAlt, dB, alt, nodesA, fi)
            else:
                ls, exp = session_lines(rng, kind, dA, dB, cfgA, nodesA, fi)
            sc.add(f'mark sess{i}', *ls)
            if rng.random() < 0.2 and exp == 0:
                sc.add('mark dbl_start', f'start {dA} {rng.choice([0, 1, 3, 7, 5000])}', 'mark dbl_start_end')     # start while running (any interval): must do nothing
            # the line may never fall silent: idle delimiters (or babble without any delimiter) arrive whenever nothing else does - also while the
            # library shuts down, and during a start that fails because nobody answers
            if rng.random() < 0.3:
                sc.add(f'bus idlefill {rng.choice(["fe", "fe", "55", "00"])}')
            sc.add('stop', 'bus idlefill off')
            if rng.random() < 0.3:
                sc.add('mark dbl_stop', 'stop', 'mark dbl_stop_end')                # stop while stopped: must do nothing
            sessions.append((kind, exp, fi))
    # the probe session: no auto-flush, every step settled, so that it is deterministic (auto-flush timing legitimately changes when
    # queued requests reach the bus); the sessions before it use every auto-flush setting
    fi = 0
    probe = ['bus clear'] + cfggen.bus_lines(cfgA, nodesA) + ['bus brackets 1', 'debug 0', 'mark probe', f'start {dA} {fi}', 'quiesce', 'snap p0'] + \
        probe_steps(ctx.seed * 1000 + k, cfgA, nodesA) + ['flush', 'quiesce', 'snap p1', 'stop', 'mark probe_end']
    # a second probe in low-level debug mode: zero-response messages of all sizes to three nodes, flushed at scripted points only - the BYTES
    # written (packet boundaries, sequence numbers) must equal those of the same session in a fresh process
    import random
    from .. import gen, spec_lowlevel as S
    r3 = random.Random(ctx.seed * 7919 + k)
    dprobe = ['bus clear', 'bus mode answer', 'bus node 0.0.0 80000d99000001', 'bus brackets 1', 'debug 1', 'mark dprobe', 'start @null 0']
    zr = gen.zero_response_names()
    for i in range(r3.randrange(20, 60)):
        name, ad2, a, _data = gen.random_call(r3, r3.choice([(0, 0, 0), (0, 0, 0), (5, 0, 0), (5, 6, 0)]), names=zr, hot=0.6)
        dprobe.append(call(name, *S.tokens(name, ad2, a)))
        if r3.random() < 0.1:
            dprobe.append('flush')
    dprobe += ['flush', 'quiesce', 'stop', 'debug 0', 'mark dprobe_end']
    order = [dprobe, probe] if k % 2 else [probe, dprobe]
    fresh = Scn(seed=ctx.seed * 83 + k, watchdog=300000)
    for pr in order:
        sc.add(*pr)
        fresh.add(*pr)
    return sc.text(), fresh.text(), cfgA, nodesA, sessions, mode

def probe_view(r):
    ev = r.events
    try:
        a = next(i for i, e in enumerate(ev) if e.get('e') == 'mark' and e.get('m') == 'probe')
        b = next(i for i, e in enumerate(ev) if e.get('e') == 'mark' and e.get('m') == 'probe_end')
    except StopIteration:
        return None
    tx = [(tuple(e['addr']), e['seq'], e['type'], e['data']) for e in ev[a:b] if e.get('e') == 'txm']
    snaps = [(e['tag'], e['state'], e['enum']) for e in ev[a:b] if e.get('e') == 'snap']
    rets = [(e['f'], e.get('r')) for e in ev[a:b] if e.get('e') == 'ret']
    return tx, snaps, rets

def check_stop_transcripts(ctx, r, cfg, nodes, meta):
    """every bidib_stop of a successfully started normal session with this config"""
    ev = r.events
    m0 = statemodel.Model(cfg, nodes)
    tos = sorted(m0.addr[b['id']] for b in cfg['boards'] if m0.connected(b['id']) and cfggen.is_track_output(b))
    i = 0
    nstops = 0
    while i < len(ev):
        e = ev[i]
        if e.get('e') == 'call' and e.get('f') == 'bidib_stop':
            j = next((k for k in range(i, len(ev)) if ev[k].get('e') == 'ret' and ev[k].get('f') == 'bidib_stop'), None)
            if j is None:
                break
            # was the library running in normal mode with our config? look back for the last start
            prev_stop = next((k for k in range(i - 1, -1, -1) if ev[k].get('e') == 'ret' and ev[k].get('f') == 'bidib_stop'), -1)
            # the start that opened this session: the first successful one after the previous stop (later ones while running do nothing)
            s_ret = next((k for k in range(prev_stop + 1, i) if ev[k].get('e') == 'ret' and ev[k].get('f') == 'bidib_start_pointer' and ev[k].get('r') == 0), None)
            s_call = next((k for k in range(s_ret, -1, -1) if ev[k].get('e') == 'call' and ev[k].get('f') == 'bidib_start_pointer'), None) if s_ret is not None else None
            running = s_ret is not None
            tx = [(tuple(x['addr']), x['type'], bytes.fromhex(x['data'])) for x in ev[i:j] if x.get('e') == 'txm']
            if not running:
                if tx or any(x.get('e') in ('thr_create', 'thr_join') for x in ev[i:j]):
                    ctx.violation('stop-while-stopped', 'not-idempotent', f'bidib_stop on a stopped library emitted {len(tx)} messages / touched threads', r.scenario, r.flavour, meta)
                    return False
            elif s_call is not None and ev[s_call].get('dir') not in ('@null',) and 'c16_' in str(ev[s_call].get('dir')) and not str(ev[s_call].get('dir')).endswith('_bad'):
                # connectivity may have changed during the session (node lost/new feedback): use the folded model
                begin, _ = fold.session_start_index(ev[:s_ret + 1])
                mm = statemodel.Model(cfg, nodes)
                fold.fold(mm, ev, begin, None, None, stop_at=i)
                tos = sorted(mm.addr[b['id']] for b in cfg['boards'] if mm.connected(b['id']) and cfggen.is_track_output(b))
                soft = [k for k, x in enumerate(tx) if x[1] == C('MSG_CS_SET_STATE') and x[2] == b'\x02']
                off = [k for k, x in enumerate(tx) if x[1] == C('MSG_CS_SET_STATE') and x[2] == b'\x00']
                # user commands submitted before the stop may still drain from the held queues; the shutdown commands are the all-zero ones
                drv = [k for k, x in enumerate(tx) if x[1] == C('MSG_CS_DRIVE') and len(x[2]) >= 9 and x[2][3:9] == bytes(6)]
                other = [x for x in tx if x[1] not in (C('MSG_CS_SET_STATE'), C('MSG_CS_DRIVE'))]
                exp_drv = sorted((a, bytes([t['addr'][1], t['addr'][0], {14: 0, 28: 2, 126: 3}[t['steps']], 0, 0, 0, 0, 0, 0])) for a in tos for t in cfg['trains'])
                got_drv = sorted((tx[k][0], tx[k][2]) for k in drv)
                pend0 = any(x.get('e') == 'mark' and x.get('m') == 'pending_node0' for x in ev[s_ret:i])
                if pend0 and (0, 0, 0) in tos and (sorted(tx[k][0] for k in soft) != tos or sorted((tx[k][0], tx[k][2]) for k in drv) != exp_drv):
                    # the track output's own queue is blocked by held requests: the shutdown commands queue behind them
                    if ctx.violation('shutdown-sequence', 'track-output-blocked-by-held-requests', 'stop: the interface node is a track output and still has held (budget-deferred) '
                                     'requests; soft-stop / train reset / off queue behind them and never reach the wire', r.scenario, r.flavour, meta):
                        return False
                    i = j
                    continue
                if sorted(tx[k][0] for k in soft) != tos or sorted(tx[k][0] for k in off) != tos:
                    ctx.violation('shutdown-sequence', 'track-outputs', f'stop: soft-stop sent to {sorted(tx[k][0] for k in soft)}, off to {sorted(tx[k][0] for k in off)}, connected track outputs {tos}', r.scenario, r.flavour, meta)
                    return False
                if got_drv != exp_drv:
                    ctx.violation('shutdown-sequence', 'train-reset', f'stop: zero-speed/all-functions-off commands {got_drv[:3]}..., expected one per train and connected track output {exp_drv[:3]}...', r.scenario, r.flavour, meta)
                    return False
                if tos and cfg['trains'] and not (max(soft) < min(drv) and max(drv) < min(off)):
                    ctx.violation('shutdown-sequence', 'order', 'stop: soft-stop, train reset and track-off are not in this order', r.scenario, r.flavour, meta)
                    return False
                if tos and off and max(off) != len(tx) - 1 and any(x[1] != C('MSG_CS_SET_STATE') for x in tx[max(off):]):
                    ctx.violation('shutdown-sequence', 'traffic-after-off', 'stop: messages follow the track-off command', r.scenario, r.flavour, meta)
                    return False
                # flushed: all of it must be on the wire before the threads are joined
                joins = [k for k in range(i, j) if ev[k].get('e') == 'thr_join']
                lasttx = max([k for k in range(i, j) if ev[k].get('e') == 'txm'] or [i])
                if joins and lasttx > min(joins):
                    ctx.violation('shutdown-sequence', 'not-flushed', 'stop: shutdown traffic reached the wire only after the threads were joined', r.scenario, r.flavour, meta)
                    return False
                nstops += 1
                if ev[j].get('live_threads') != 0:
                    ctx.violation('threads-alive', 'after-stop', f'{ev[j].get("live_threads")} library threads not joined after bidib_stop', r.scenario, r.flavour, meta)
                    return False
            i = j
        i += 1
    return nstops

def check_failed_starts(ctx, r, cfg, meta):
    """a start that fails after a configured track output logged on (injected MSG_NODE_NEW, acknowledged by the library): the shutdown
    sequence is owed to that node before the threads are joined"""
    ev = r.events
    for mi, e in enumerate(ev):
        if e.get('e') != 'mark' or not str(e.get('m', '')).startswith('failnew:'):
            continue
        la = int(e['m'].split(':')[1])
        ci = next((k for k in range(mi, len(ev)) if ev[k].get('e') == 'call' and ev[k].get('f') == 'bidib_start_pointer'), None)
        ri = next((k for k in range(mi, len(ev)) if ev[k].get('e') == 'ret' and ev[k].get('f') == 'bidib_start_pointer'), None)
        if ci is None or ri is None or ev[ri].get('r') != 1:
            continue
        seg = ev[ci:ri]
        acked = any(x.get('e') == 'txm' and x['type'] == C('MSG_NODE_CHANGED_ACK') for x in seg)
        if not acked:
            ctx.count('failed_start_node_new_not_processed')
            continue
        ctx.count('failed_starts_with_connected_track_output')
        a = (la, 0, 0)
        tx = [(k, x['type'], bytes.fromhex(x['data'])) for k, x in enumerate(seg) if x.get('e') == 'txm' and tuple(x['addr']) == a]
        soft = [k for k, t, d in tx if t == C('MSG_CS_SET_STATE') and d == b'\x02']
        off = [k for k, t, d in tx if t == C('MSG_CS_SET_STATE') and d == b'\x00']
        drv = sorted(d for k, t, d in tx if t == C('MSG_CS_DRIVE'))
        drv_i = [k for k, t, d in tx if t == C('MSG_CS_DRIVE')]
        exp_drv = sorted(bytes([t['addr'][1], t['addr'][0], {14: 0, 28: 2, 126: 3}[t['steps']], 0, 0, 0, 0, 0, 0]) for t in cfg['trains'])
        joins = [k for k, x in enumerate(seg) if x.get('e') == 'thr_join']
        what = None
        if len(soft) != 1 or len(off) != 1:
            what = f'soft-stop x{len(soft)}, track-off x{len(off)} to the track output {a} that logged on during the failed start'
        elif drv != exp_drv:
            what = f'zero-speed commands {len(drv)} of {len(exp_drv)} trains to {a}'
        elif not (soft[0] < min(drv_i + [off[0]]) and max(drv_i + [soft[0]]) < off[0]):
            what = 'soft-stop, train reset and track-off are not in this order'
        elif joins and off[0] > min(joins):
            what = 'shutdown traffic reached the wire only after the threads were joined'
        if what:
            ctx.violation('shutdown-sequence', 'failed-start', f'failed start (silent interface, MSG_NODE_NEW for a configured track output acknowledged): {what}', r.scenario, r.flavour, meta)
            return False
    return True

def evaluate(ctx, r, rf, cfg, nodes, sessions, mode, meta):
    if ctx.generic_failures(r, meta) or ctx.generic_failures(rf, meta):
        return
    if runner.outcome(r) != 'ok' or runner.outcome(rf) != 'ok':
        return
    ctx.evaluations += 1
    ev = r.events
    # start results per session
    rets = [e for e in ev if e.get('e') == 'ret' and e.get('f') == 'bidib_start_pointer']
    for i, (kind, exp, fi) in enumerate(sessions):
        mi = next((k for k, e in enumerate(ev) if e.get('e') == 'mark' and e.get('m') == f'sess{i}'), None)
        if mi is None:
            continue
        fr = next((e for e in ev[mi:] if e.get('e') == 'ret' and e.get('f') == 'bidib_start_pointer'), None)
        if fr is None:
            continue
        ctx.count('sessions_' + kind)
        if fr.get('r') != exp:
            ctx.violation('start-result', kind, f'session {i} ({kind}, after {[k_ for k_, _e, _f in sessions[:i]]}): start returned {fr.get("r")}, expected {exp}', r.scenario, r.flavour, meta)
            return
        if exp == 1 and fr.get('live_threads'):
            ctx.violation('threads-alive', 'after-failed-start', f'session {i} ({kind}): {fr.get("live_threads")} library threads alive after the failed start', r.scenario, r.flavour, meta)
            return
    # start-while-running must do nothing
    for a, b in (('dbl_start', 'dbl_start_end'), ('dbl_stop', 'dbl_stop_end')):
        idx = [i for i, e in enumerate(ev) if e.get('e') == 'mark' and e.get('m') == a]
        for i in idx:
            j = next(k for k in range(i, len(ev)) if ev[k].get('e') == 'mark' and ev[k].get('m') == b)
            seg = ev[i:j]
            # traffic written by the calling thread between call and return of the redundant start/stop (traffic of the receiver or the
            # auto-flush thread belongs to the running session)
            ci = next((k for k, x in enumerate(seg) if x.get('e') == 'call'), 0)
            ri = next((k for k, x in enumerate(seg) if x.get('e') == 'ret'), len(seg))
            inner = seg[ci:ri + 1]
            if any(x.get('e') in ('thr_create', 'thr_join') for x in inner) or any(x.get('e') == 'txm' and x.get('t') == 0 for x in inner):
                ctx.violation('not-idempotent', a, f'{a.replace("dbl_", "")} while {"running" if a == "dbl_start" else "stopped"} produced wire traffic or touched threads', r.scenario, r.flavour, meta)
                return
            hs = [x.get('heap') for x in seg if x.get('e') in ('call', 'ret') and 'heap' in x]
            if len(hs) >= 2 and hs[0] != hs[-1] and a == 'dbl_stop':
                # the allocator statistic is process-wide (harness threads allocate too): a difference counts when the same scenario shows it again
                again = runner.run_scenario(r.flavour, r.scenario, tag='c16-dblstop-again')
                ev2 = again.events
                i2 = [q for q, x in enumerate(ev2) if x.get('e') == 'mark' and x.get('m') == a]
                rep = False
                for q in i2:
                    j2 = next((k for k in range(q, len(ev2)) if ev2[k].get('e') == 'mark' and ev2[k].get('m') == b), len(ev2))
                    h2 = [x.get('heap') for x in ev2[q:j2] if x.get('e') in ('call', 'ret') and 'heap' in x]
                    rep = rep or (len(h2) >= 2 and h2[0] != h2[-1])
                if rep:
                    ctx.violation('not-idempotent', a + '-heap', f'stop while stopped changed the allocated bytes {hs[0]} -> {hs[-1]} (reproduced in a second run)', r.scenario, r.flavour, meta)
                    return
                ctx.count('heap_differences_not_reproduced')
    # failed starts leave no thread alive
    for e in rets:
        if e.get('r') == 1 and e.get('live_threads') != 0:
            ctx.violation('threads-alive', 'after-failed-start', f'{e.get("live_threads")} library threads alive after bidib_start_pointer returned 1', r.scenario, r.flavour, meta)
            return
    ts = next((e for e in ev if e.get('e') == 'thr_summary'), None)
    if ts and (ts['created'] != ts['joined'] or ts['alive']):
        ctx.violation('thread-bookkeeping', 'create-join', f'threads created {ts["created"]}, joined {ts["joined"]}, alive at exit {ts["alive"]}', r.scenario, r.flavour, meta)
        return
    # the auto-flush period of a session is the one it was started with - whatever was passed to a later, redundant start or to earlier sessions
    running, cur_fi = False, None
    for e in ev:
        if e.get('e') == 'call' and e.get('f') == 'bidib_start_pointer' and not running:
            running, cur_fi = True, e.get('fi')
        elif e.get('e') == 'ret' and e.get('f') == 'bidib_start_pointer' and e.get('r') == 1 and e.get('live_threads') == 0:
            running = False
        elif e.get('e') == 'ret' and e.get('f') == 'bidib_stop':
            running = False
        elif e.get('e') == 'afsleep':
            ctx.count('auto_flush_periods_checked')
            if cur_fi is not None and e['us'] != 1000 * cur_fi:
                ctx.violation('auto-flush-period', 'session', f'the auto-flush thread of a session started with flush_interval {cur_fi} ms sleeps {e["us"]} us per round', r.scenario, r.flavour, meta)
                return
    if not check_failed_starts(ctx, r, cfg, meta):
        return
    ns = check_stop_transcripts(ctx, r, cfg, nodes, meta)
    if ns is False:
        return
    ctx.count('stop_transcripts_checked', ns)
    if mode == 'repeat':
        hp = [e['bytes'] for e in ev if e.get('e') == 'heap' and str(e.get('tag', '')).startswith('rep')]
        ctx.count('heap_series')
        fds = [e.get('fds') for e in ev if e.get('e') == 'heap' and str(e.get('tag', '')).startswith('rep')]
        if len(fds) >= 3 and None not in fds and -1 not in fds and fds[-1] > fds[0]:
            ctx.violation('descriptor-growth', 'repeated-session', f'open file descriptors after each identical session: {fds}', r.scenario, r.flavour, meta)
            return
        if len(hp) >= 6 and all(hp[i + 1] > hp[i] for i in range(2, 5)):
            ctx.violation('heap-growth', 'repeated-session', f'allocated bytes grow with every identical session: {hp}', r.scenario, r.flavour, meta)
            return
    pv, pf = probe_view(r), probe_view(rf)
    if pv is None or pf is None:
        ctx.inconclusive.append('probe markers missing')
        return
    def dview(res):
        ev_ = res.events
        a = next((i for i, e in enumerate(ev_) if e.get('e') == 'mark' and e.get('m') == 'dprobe'), None)
        b = next((i for i, e in enumerate(ev_) if e.get('e') == 'mark' and e.get('m') == 'dprobe_end'), None)
        return None if a is None or b is None else [e['hex'] for e in ev_[a:b] if e.get('e') == 'tx']
    dv, df = dview(r), dview(rf)
    if dv is None or df is None:
        ctx.inconclusive.append('debug probe markers missing')
        return
    if dv != df:
        kx = next((i for i in range(min(len(dv), len(df))) if dv[i] != df[i]), min(len(dv), len(df)))
        ctx.violation('session-differs', 'debug-bytes', f'low-level debug session after {[k_ for k_, _e, _f in sessions]}: write #{kx} is {len(dv[kx]) // 2 if kx < len(dv) else None} bytes '
                      f'{(dv[kx][:40] + "...") if kx < len(dv) else None}, in a fresh process {len(df[kx]) // 2 if kx < len(df) else None} bytes {(df[kx][:40] + "...") if kx < len(df) else None}', r.scenario, r.flavour, meta)
        return
    ctx.count('debug_probe_writes_compared', len(dv))
    if pv[2] != pf[2]:
        ctx.violation('session-differs', 'return-values', f'probe session as session {len(sessions) + 1}: return values {pv[2][:4]} vs fresh process {pf[2][:4]}', r.scenario, r.flavour, meta)
        return
    def pernode(tx):
        d = {}
        for (a, sq, t, dta) in tx:
            d.setdefault(a, []).append((sq, t, dta))
        return d
    if pernode(pv[0]) != pernode(pf[0]):
        a_, b_ = pernode(pv[0]), pernode(pf[0])
        node = next(n for n in set(a_) | set(b_) if a_.get(n) != b_.get(n))
        la, lb = a_.get(node, []), b_.get(node, [])
        k = next((i for i in range(min(len(la), len(lb))) if la[i] != lb[i]), min(len(la), len(lb)))
        ctx.violation('session-differs', 'transcript', f'probe session as session {len(sessions) + 1}: traffic to node {node} differs from the same session in a fresh process at message #{k}: '
                      f'{la[k] if k < len(la) else None} vs {lb[k] if k < len(lb) else None}', r.scenario, r.flavour, meta)
        return
    if pv[1] != pf[1]:
        ctx.violation('session-differs', 'state', f'probe session as session {len(sessions) + 1}: getter snapshots differ from those of the same session in a fresh process', r.scenario, r.flavour, meta)
        return
    if len(sessions) >= 1:
        ctx.nontrivial.add(meta['digest'])
    ctx.count('sessions', len(sessions) + 1)

def run(ctx):
    ctx.rule = ('sequences of 1-6 sessions per process (normal with a generated config and node tree / low-level debug / silent interface / rejected config / NULL callback; '
                'auto-flush 0-3 ms; activity incl. held requests and >128 unread messages; start-while-running and stop-while-stopped probes) followed by a scripted '
                'probe session that is also run alone in a fresh process; one third of the scenarios repeat an identical session six times for heap conservation '
                '(LSan on). non-trivial = distinct scenario with >=1 session before the probe')
    ctx.assumptions = ['__sanitizer_get_current_allocated_bytes after bidib_stop; first two repetitions absorb one-time allocations', 'decoded message lists are compared, not packet boundaries',
                       'pthread_create/pthread_join interposed at link time']
    jobs = [gen_scenario(ctx, k) for k in range(ctx.n(120, 5000))]
    res = runner.run_many('asan', [(i, j[0]) for i, j in enumerate(jobs)], timeout=900, leaks=True)
    resf = runner.run_many('asan', [(i, j[1]) for i, j in enumerate(jobs)], timeout=900, leaks=True)
    for j, r, rf in zip(jobs, res, resf):
        meta = {'digest': hashlib.sha1(j[0].encode()).hexdigest()[:12], 'sessions': [(s[0], s[2]) for s in j[4]], 'mode': j[5]}
        evaluate(ctx, r, rf, j[2], j[3], j[4], j[5], meta)
    ctx.sample({'sessions': [(s[0], s[2]) for s in jobs[0][4]], 'mode': jobs[0][5]})
    return ctx.finish(min_eval=40, min_nontrivial=20)
