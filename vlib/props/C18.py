"""C18 - each low-level send function validates its parameters and encodes exactly one message.
Oracle: spec table (vlib/spec_lowlevel.py, written from the header docs and bidib_messages.h) applied to the
decoded wire after each call+flush in low-level debug mode; ASan/UBSan on exact-size argument buffers."""
from .. import batch, model, runner, spec_lowlevel as S
from ..scen import Scn, call

ADDRS = [(0, 0, 0), (5, 0, 0), (5, 254, 0), (253, 7, 9)]

HINTS = {'bidib_send_sys_clock': {'t0': 30, 't1': 0x85, 't2': 0x42, 't3': 0xC1}}

def valid_default(name, rng):
    r = S.rows()[name]
    if name in HINTS:
        return dict(HINTS[name])
    for _ in range(2000):
        a = {}
        for an in r['args']:
            if an.startswith('B:'):
                continue
            a[an] = rng.choice([0, 1, 2, 8, 16, 64, 0x80, 0x40, 0xC1, 255, rng.randrange(256)])
        _fill_buffers(name, a, rng)
        st, _ = S.expected(name, (5, 0, 0), a)
        if st == 'accept' or r['data'] is None:
            return a
    raise RuntimeError('no valid default for ' + name)

BUF_LEN_ARG = {'name': 'nlen', 'value': 'vlen', 'str': 'size', 'data': 'size', 'pairs': 'n'}

def _fill_buffers(name, a, rng, fill=None):
    r = S.rows()[name]
    for an in r['args']:
        if not an.startswith('B:'):
            continue
        b = an[2:]
        n = a[BUF_LEN_ARG[b]]
        if name == 'bidib_send_bm_mirror_multiple':
            n = n // 8
        if name == 'bidib_send_lc_configx_set':
            n = 2 * n
        buf = bytearray(n)
        for i in range(n):
            buf[i] = ((i * 7 + 1) % 200) + 0x30 if (fill is None or isinstance(fill, tuple)) else fill   # distinct, non-zero, no white space
        if isinstance(fill, tuple):
            # mixed content: the buffers are length-prefixed byte arrays, not C strings - zero bytes in front of / between other bytes,
            # arbitrary bytes (seeded)
            kind, sd = fill
            import random as _r
            rr = _r.Random(sd)
            for i in range(n):
                buf[i] = ((i * 11 + 3) % 250) + 1
            if kind == 'zero-first' and n:
                buf[0] = 0
            elif kind == 'zero-mid' and n > 2:
                buf[rr.randrange(1, n - 1)] = 0
            elif kind == 'zeros' and n:
                for i in range(0, n, 2):
                    buf[i] = 0
            elif kind == 'random':
                for i in range(n):
                    buf[i] = rr.choice([0, 0, 1, 0x20, 0x7F, 0x80, 0xFE, 0xFD, 0xFF, rr.randrange(256)])
        if name == 'bidib_send_accessory_para_set_macromap' and n > 0 and a.get('_last_ff', True):
            buf[n - 1] = 0xFF
        if name == 'bidib_send_fw_update_op_data' and isinstance(fill, tuple):
            buf = bytearray(x if x not in S.WS else 0x41 for x in buf)
        a[b] = bytes(buf)

def gen_cases(ctx):
    rng = ctx.sub_rng('gen')
    cases = []
    thorough = not ctx.quick
    for name, r in sorted(S.rows().items()):
        base = valid_default(name, rng)
        scalars = [an for an in r['args'] if not an.startswith('B:')]
        k = 0
        # sweep every scalar over 0..255 with the others at a valid default; address depth rotates (quick) or full (thorough)
        for an in scalars:
            for v in range(256):
                depths = ADDRS if thorough or an in BUF_LEN_ARG.values() else [ADDRS[(v + k) % 4]]
                for ad in depths:
                    a = dict(base)
                    a[an] = v
                    _fill_buffers(name, a, rng)
                    cases.append((name, ad if r['has_addr'] else (0, 0, 0), a))
            k += 1
        if not scalars:
            for ad in (ADDRS if r['has_addr'] else ADDRS[:1]):
                cases.append((name, ad, dict(base)))
        # buffer content variants: whitespace bytes / FE FD / missing terminator
        if any(an.startswith('B:') for an in r['args']):
            for ad in ADDRS:
                for fill in (0x20, 0x0A, 0xFE, 0xFD, 0x00, 0xFF):
                    a = dict(base)
                    a['_last_ff'] = (fill == 0xFF) or name != 'bidib_send_accessory_para_set_macromap' or fill in (0x20,)
                    _fill_buffers(name, a, rng, fill=fill)
                    if name == 'bidib_send_accessory_para_set_macromap' and a['size'] > 0 and a['_last_ff'] and fill != 0xFF:
                        a['data'] = a['data'][:-1] + b'\xff'
                    cases.append((name, ad, a))
            for ad in ADDRS:
                for vi, kind in enumerate(('zero-first', 'zero-mid', 'zeros', 'random', 'random', 'random')):
                    for ln in (None, 3, 7):
                        a = dict(base)
                        a['_last_ff'] = True
                        for bl in set(BUF_LEN_ARG.values()) & set(r['args']):
                            if ln is not None and name not in ('bidib_send_bm_mirror_multiple',):
                                a2 = dict(a)
                                a2[bl] = ln
                                _fill_buffers(name, a2, rng, fill=(kind, vi * 131 + (ln or 0) + len(name)))
                                if S.expected(name, ad, a2)[0] == 'accept':
                                    a = a2
                        _fill_buffers(name, a, rng, fill=(kind, vi * 131 + (ln or 0) + len(name)))
                        cases.append((name, ad if r['has_addr'] else (0, 0, 0), a))
        if any(an.startswith('B:') for an in r['args']):
            # the smallest size: every length 0, the buffers empty - once as pointers to nothing, once as NULL pointers (nothing is read from a
            # buffer of length 0, so both are the same accepted call where the spec accepts length 0)
            for ad in ADDRS:
                for null in (False, True):
                    a = dict(base)
                    for bl in set(BUF_LEN_ARG.values()) & set(r['args']):
                        a[bl] = 0
                    _fill_buffers(name, a, rng)
                    a['_last_ff'] = True
                    if null:
                        if S.expected(name, ad, a)[0] != 'accept':
                            continue
                        a['_null'] = True
                    cases.append((name, ad if r['has_addr'] else (0, 0, 0), a))
        if name == 'bidib_send_accessory_para_set_macromap':
            # the list must END with 0xFF: a terminator anywhere else does not make it valid
            for ad in ADDRS:
                for n in (1, 2, 3, 8, 16):
                    for ffpos in sorted({0, n // 2, n - 2} & set(range(0, max(0, n - 1)))) + [None]:
                        a = dict(base)
                        a['size'] = n
                        buf = bytearray(((i * 5 + 1) % 0xF0) + 1 for i in range(n))
                        if ffpos is not None:
                            buf[ffpos] = 0xFF
                        if buf[-1] == 0xFF:
                            buf[-1] = 0x01
                        a['data'] = bytes(buf)
                        cases.append((name, ad, a))
        if thorough:
            # pairs of scalars at boundary values
            B = [0, 1, 7, 8, 16, 17, 31, 32, 59, 60, 63, 64, 70, 71, 118, 119, 120, 121, 122, 127, 128, 151, 152, 191, 192, 223, 224, 250, 251, 254, 255]
            for i, x in enumerate(scalars):
                for y in scalars[i + 1:]:
                    for vx in B:
                        for vy in B:
                            a = dict(base)
                            a[x], a[y] = vx, vy
                            _fill_buffers(name, a, rng)
                            cases.append((name, ADDRS[(vx + vy) % 4] if r['has_addr'] else (0, 0, 0), a))
    return cases

def make_scenario(items, seed=1):
    sc = Scn(seed=seed, watchdog=120000)
    # the simulated bus answers every request, otherwise the 48-byte response budget defers later calls
    sc.add('bus mode answer', 'bus brackets 0')
    for k, ad in enumerate(ADDRS):
        sc.add(f'bus node {ad[0]}.{ad[1]}.{ad[2]} 0{k}00aabbccdd{k:02x}')
    sc.add('debug 1', 'start @null 0')
    for i, (name, ad, a) in items:
        toks = S.tokens(name, ad, a)
        if a.get('_null'):
            toks = ['@null' if str(t_) == 'h:' else t_ for t_ in toks]          # an empty buffer given as NULL pointer
        sc.add(f'mark c{i}', call(name, *toks), 'flush', 'quiesce')
    sc.add('mark cend', 'stop')
    return sc.text()

def check_case(ctx, case, evs):
    name, ad, a = case
    status, data = S.expected(name, ad, a)
    txm = [e for e in evs if e.get('e') == 'txm']
    tx = b''.join(bytes.fromhex(e['hex']) for e in evs if e.get('e') == 'tx')
    txbad = [e for e in evs if e.get('e') == 'txbad']
    meta = {'fn': name, 'addr': ad, 'args': {k: (v.hex() if isinstance(v, bytes) else v) for k, v in a.items()}}
    scen = make_scenario([(0, case)])
    if txbad:
        ctx.violation('malformed-wire', name, f'{name}: wire not decodable: {txbad[0]}', scen, 'asan', meta)
        return
    if status == 'unspecified':
        # header layout needs bytes the function cannot provide
        if txm:
            ctx.violation('encoding', name, f'{name}: emits {txm[0]["data"]} but bidib_messages.h specifies addr_l,addr_h,type,loc_l,loc_h', scen, 'asan', meta)
        return
    if status == 'reject':
        if txm:
            ctx.violation('accepted-invalid', name, f'{name}({meta["args"]}) must be rejected but sent type {txm[0]["type"]:#x} data {txm[0]["data"]}', scen, 'asan', meta)
        return
    if not txm:
        if status == 'accept':
            ctx.violation('rejected-valid', name, f'{name}({meta["args"]}) at {ad} is valid but nothing was sent', scen, 'asan', meta)
        return
    if len(txm) != 1:
        ctx.violation('not-exactly-one', name, f'{name} produced {len(txm)} messages', scen, 'asan', meta)
        return
    m = txm[0]
    exp_type = model.C(S.rows()[name]['type'])
    if m['type'] != exp_type or m['type'] >= 0x80:
        ctx.violation('type-code', name, f'{name}: type {m["type"]:#x}, expected {exp_type:#x}', scen, 'asan', meta)
    if tuple(m['addr']) != tuple(ad):
        ctx.violation('address', name, f'{name}: sent to {m["addr"]}, expected {ad}', scen, 'asan', meta)
    if bytes.fromhex(m['data']) != data:
        ctx.violation('encoding', name, f'{name}({meta["args"]}): data {m["data"]}, expected {data.hex()}', scen, 'asan', meta)
    # strict framing + length byte
    try:
        pk = model.strict_deframe(tx)
        msgs = [x for p in pk for x in model.split_messages(p['payload'])]
        for x in msgs:
            if x[0] > 127:
                ctx.violation('length-byte', name, f'{name}({meta["args"]}) at depth {S.depth(ad)}: length byte {x[0]} > 127', scen, 'asan', meta)
    except model.FrameError as e:
        ctx.violation('malformed-wire', name, f'{name}: {e}', scen, 'asan', meta)
    ctx.nontrivial.add((name, status, S.depth(ad), len(data)))

def run_reentrancy(ctx):
    """every send function called by two threads at once with DIFFERENT valid arguments: thread A is paused at one of its first scheduling
    points (library function entries and lock operations - i.e. after it has prepared its data, before / while the message is buffered) and
    thread B runs the same function completely. Each call must still put exactly its own encoding on the wire."""
    from .. import gen, sweep
    from collections import Counter
    rng = ctx.sub_rng('reent')
    names = [n for n, r in sorted(S.rows().items()) if r['data'] is not None and n not in gen.EXCLUDE]
    jobs = []
    per = 12
    ks = (1, 2, 3, 4, 6, 9) if ctx.quick else tuple(range(1, 16))
    for i in range(0, len(names), per):
        sc = Scn(seed=ctx.seed * 7 + i, watchdog=180000)
        sc.add('bus mode answer', 'bus brackets 0')
        for k_, ad in enumerate(ADDRS):
            sc.add(f'bus node {ad[0]}.{ad[1]}.{ad[2]} 0{k_}00aabbccdd{k_:02x}')
        sc.add('debug 1', 'start @null 0')
        exp = []
        idx = 0
        for name in names[i:i + per]:
            for k in ks:
                ca = gen.random_call(rng, rng.choice(ADDRS), names=[name], hot=0.3, long_bias=0.3)
                cb = gen.random_call(rng, rng.choice(ADDRS), names=[name], hot=0.3, long_bias=0.3)
                sweep.add_two_thread_case(sc, idx, [call(ca[0], *S.tokens(ca[0], ca[1], ca[2]))], [call(cb[0], *S.tokens(cb[0], cb[1], cb[2]))], k, fn=True,
                                          after=('flush', 'quiesce', 'flush', 'quiesce'))
                exp.append((name, Counter([(tuple(ca[1]), model.C(S.rows()[name]['type']), ca[3]), (tuple(cb[1]), model.C(S.rows()[name]['type']), cb[3])])))
                idx += 1
        sc.add(f'mark c{idx}', 'stop')
        jobs.append((sc.text(), exp))
    res = runner.run_many('asan', [(i, j[0]) for i, j in enumerate(jobs)], timeout=600)
    for (text, exp), r in zip(jobs, res):
        meta = {'kind': 'reentrancy'}
        if ctx.generic_failures(r, meta) or runner.outcome(r) != 'ok':
            continue
        seen = batch.split_by_marks(r.events)
        # messages deferred by the response budget surface in a later window: compare cumulatively per function block
        carry = Counter()
        want = Counter()
        for i, (name, e) in enumerate(exp):
            evs = seen.get(i, [])
            got = Counter((tuple(x['addr']), x['type'], bytes.fromhex(x['data'])) for x in evs if x.get('e') == 'txm')
            carry += got
            want += e
            ctx.evaluations += 1
            paused = any(x.get('e') == 'paused' for x in evs)
            ctx.count('reentrancy_cases_paused', int(paused))
            extra = carry - want
            if extra:
                (a_, t_, d_), _n = list(extra.items())[0]
                ctx.violation('foreign-bytes-under-concurrency', name, f'{name} called by two threads at once: message to {a_} type {t_:#x} data {d_.hex()} is the encoding of neither call '
                              f'(expected {[(a, d.hex()) for (a, t, d) in e]})', text, 'asan', meta)
                break
        else:
            if carry != want:
                miss = list((want - carry).items())[:2]
                ctx.violation('lost-under-concurrency', 'reentrancy', f'messages of concurrent calls never reached the wire: {[(a, hex(t), d.hex()) for (a, t, d), n in miss]}', text, 'asan', meta)
        sweep.pause_stats(ctx, r.events, 'reentrancy')

def run_repeat(ctx):
    """the same accepted call twice in a row, in a NORMAL session in which the peer acknowledges everything and the state tracking knows the
    addressed train / accessory / output: what the library believes about the equipment never decides whether a low-level call submits its
    message - every accepted call submits exactly one"""
    from .. import cfggen, statemodel
    from .C07 import cfg_dir
    jobs = []
    for k in range(ctx.n(6, 150)):
        rng = ctx.sub_rng('c18rep', k)
        cfg = cfggen.gen_config(rng, nboards=rng.randrange(1, 3), with_initial=False)
        b0 = cfg['boards'][0]
        b0['uid'] = bytes([b0['uid'][0] | 0x90]) + b0['uid'][1:]
        if not cfg['trains']:
            cfg['trains'].append({'id': 'xt18', 'addr': cfggen.free_dcc(cfg, (0x12, 0x34)), 'steps': 28, 'calibration': None, 'peripherals': None})
        d = cfggen.write_config(cfg, cfg_dir(f'c18rep_{k}'))
        nodes = [((0, 0, 0), b0['uid'])] + [((i + 1, 0, 0), b['uid']) for i, b in enumerate(cfg['boards'][1:])]
        sc = Scn(seed=ctx.seed * 149 + k, watchdog=180000)
        sc.add(*cfggen.bus_lines(cfg, nodes), 'bus brackets 0', f'start {d} 0', 'quiesce', 'flush', 'quiesce')
        cases = []
        def add(name, ad, a):
            st, data = S.expected(name, ad, a)
            if st != 'accept':
                return
            for rep in range(rng.choice([2, 3])):
                sc.add(f'mark c{len(cases)}', call(name, *S.tokens(name, ad, a)), 'flush', 'quiesce')
                cases.append((name, ad, data))
        for t in cfg['trains']:
            fmt = {14: 0, 28: 2, 126: 3}[t['steps']]
            for sp in (rng.randrange(2, 100), 0, rng.randrange(2, 100) | 0x80):
                add('bidib_send_cs_drive', (0, 0, 0), {'al': t['addr'][1], 'ah': t['addr'][0] & 0x3F, 'atype': 0, 'fmt': fmt, 'active': 0x01, 'speed': sp, 'f1': 0, 'f2': 0, 'f3': 0, 'f4': 0})
            add('bidib_send_cs_drive', (0, 0, 0), {'al': t['addr'][1], 'ah': t['addr'][0] & 0x3F, 'atype': 0, 'fmt': fmt, 'active': 0x03, 'speed': 5, 'f1': 0x10, 'f2': 0, 'f3': 0, 'f4': 0})
        for st_ in (0x03, 0x00, 0x03):
            add('bidib_send_cs_set_state', (0, 0, 0), {'state': st_})
        for b in cfg['boards']:
            ad = next(a_ for a_, u_ in nodes if u_ == b['uid'])
            for a in (b.get('points_board') or [])[:2]:
                add('bidib_send_accessory_set', ad, {'anum': a['number'], 'aspect': a['aspects'][0][1]})
            for a in (b.get('points_dcc') or [])[:2]:
                add('bidib_send_cs_accessory', (0, 0, 0), {'al': a['addr'][1], 'ah': a['addr'][0] & 0x3F, 'atype': 0, 'data': 0x21, 'time': 0})
            for a in (b.get('peripherals') or [])[:2]:
                add('bidib_send_lc_output', ad, {'p0': a['port'][0], 'p1': a['port'][1], 'stat': a['aspects'][0][1]})
        sc.add(f'mark c{len(cases)}', 'stop')
        jobs.append((sc.text(), cases))
    res = runner.run_many('asan', [(i, j[0]) for i, j in enumerate(jobs)], timeout=600)
    for j, r in zip(jobs, res):
        meta = {'kind': 'repeat-normal-mode'}
        if ctx.generic_failures(r, meta) or runner.outcome(r) != 'ok':
            continue
        ret = next((e for e in r.events if e.get('e') == 'ret' and e.get('f') == 'bidib_start_pointer'), None)
        if not ret or ret.get('r') != 0:
            ctx.inconclusive.append('repeat part: start failed')
            continue
        seen = batch.split_by_marks(r.events)
        for i, (name, ad, data) in enumerate(j[1]):
            t_ = model.C(S.rows()[name]['type'])
            txm = [e for e in seen.get(i, []) if e.get('e') == 'txm' and e['type'] == t_ and tuple(e['addr']) == tuple(ad)]
            ctx.evaluations += 1
            ctx.count('repeated_calls_checked')
            if len(txm) != 1 or bytes.fromhex(txm[0]['data']) != data:
                ctx.violation('not-exactly-one', name + '/repeated', f'{name} to {ad} (call #{i} of the normal-mode session, same arguments as its neighbours): {len(txm)} message(s) of its type on the wire '
                              f'{[e["data"] for e in txm][:2]}, expected exactly one with data {data.hex()}', r.scenario, r.flavour, meta)
                break

def run(ctx):
    cases = gen_cases(ctx)
    ctx.rule = ('boundary sweep: every public bidib_send_* x each scalar argument over 0..255 (others at a valid default) x '
                'address depth 0-3 x buffer lengths 0..max+1 with distinct non-zero fill, white-space/FE/FD/00/FF fills and mixed content (zero bytes in front of / between other bytes, seeded random bytes); thorough adds '
                'pairs of scalars at boundary values; re-entrancy: every function called by two threads with different arguments, one paused at its first scheduling points while the other runs. non-trivial = distinct (function, accept/reject/either, depth, data length) '
                'whose expected message was found on the wire')
    ctx.assumptions = ['spec table vlib/spec_lowlevel.py (from header docs + bidib_messages.h)', 'low-level debug mode bypasses only the uplink dispatch',
                       'gcc ASan+UBSan with 512-byte red zones; exact-size heap buffers for pointer arguments']
    fns = set()
    for r, idxs, died in batch.run_batches('asan', cases, make_scenario, batch_size=400, timeout=300):
        seen = batch.split_by_marks(r.events)
        for i in idxs:
            if i == died:
                continue
            if i in seen:
                ctx.evaluations += 1
                fns.add(cases[i][0])
                check_case(ctx, cases[i], seen[i])
        if died is not None:
            ctx.evaluations += 1
            name, ad, a = cases[died]
            meta = {'fn': name, 'addr': ad, 'args': {k: (v.hex() if isinstance(v, bytes) else v) for k, v in a.items()}}
            scen = make_scenario([(0, cases[died])])
            n = 0
            for cls, site, text in runner.asan_reports(r.san):
                n += 1
                ctx.violation(cls, site, f'{name}({meta["args"]}): {cls} in {site}', scen, 'asan', meta, text)
            for v in r.viols():
                n += 1
                ctx.violation(v['cls'], name, v['msg'], scen, 'asan', meta)
            if not n:
                ctx.violation('crash', name, f'{name}({meta["args"]}): process ended rc={r.rc} {runner.outcome(r)} {r.stderr[-200:]}', scen, 'asan', meta, r.san)
        else:
            for v in r.viols():
                ctx.violation(v['cls'], v['msg'].split(' ')[0], v['msg'], r.scenario, 'asan')
    run_reentrancy(ctx)
    run_repeat(ctx)
    ctx.cov['functions_exercised'] = len(fns)
    ctx.cov['functions_in_spec'] = len(S.rows())
    ctx.sample({'fn': cases[0][0], 'addr': cases[0][1], 'args': {k: (v.hex() if isinstance(v, bytes) else v) for k, v in cases[0][2].items()}})
    ctx.sample({'fn': cases[len(cases) // 2][0], 'addr': cases[len(cases) // 2][1],
                'args': {k: (v.hex() if isinstance(v, bytes) else v) for k, v in cases[len(cases) // 2][2].items()}})
    return ctx.finish(min_eval=1000, min_nontrivial=60)
