"""C13 - start with arbitrary configuration files terminates with 0 or 1, never crashes or hangs; after 1 the library is stopped, has
released its memory and every lock and can be started again with a valid configuration.
Oracle per case (own process): return value in {0,1}; ASan/UBSan/LSan; lock monitor (held-set empty at return, no wait-for cycle,
watchdog); thread monitor (none alive after a failed start); allocated bytes constant over repeated identical attempts; a following
start with a valid configuration returns 0 and its getters agree with that configuration."""
import hashlib

from .. import cfggen, fold, runner, statemodel
from ..scen import Scn
from .C07 import cfg_dir
from .C14 import expected_enum, cmp_enum

KEYS = ['boards', 'id', 'unique-id', 'features', 'number', 'value', 'points-board', 'points-dcc', 'signals-board', 'signals-dcc', 'peripherals', 'segments', 'reversers',
        'aspects', 'initial', 'dcc-address', 'extended', 'ports', 'port', 'address', 'length', 'cv', 'trains', 'dcc-speed-steps', 'calibration', 'bit']

def mutate_text(rng, text):
    """one structure-aware mutation of a YAML text -> (text or None for 'file missing', class)"""
    lines = text.split('\n')
    body = [i for i, l in enumerate(lines) if l.strip() and not l.strip().startswith('#')]
    k = rng.choice(['delete', 'duplicate', 'swap', 'rename', 'truncate', 'indent', 'scalar2seq', 'scalar2map', 'badhex', 'range', 'empty', 'dupid', 'alias', 'multidoc',
                    'missing', 'emptyfile', 'noise', 'tab', 'flow', 'longscalar', 'nullvalue', 'delblock', 'dupvalue', 'dupvalue', 'extrakey', 'extrakey', 'emptyelem'])
    if k == 'missing':
        return None, k
    if k == 'emptyfile':
        return rng.choice(['', '\n', '# nothing\n', '---\n', '...\n']), k
    if k == 'noise':
        return bytes(rng.randrange(256) for _ in range(rng.randrange(1, 300))).decode('latin-1'), k
    if not body:
        return text + '\n- x', 'append'
    i = rng.choice(body)
    l = lines[i]
    if k == 'delete':
        del lines[i]
    elif k == 'delblock':
        j = min(len(lines), i + rng.randrange(1, 8))
        del lines[i:j]
    elif k == 'duplicate':
        lines.insert(i, l)
    elif k == 'swap':
        j = rng.choice(body)
        lines[i], lines[j] = lines[j], lines[i]
    elif k == 'rename':
        for key in KEYS:
            if key + ':' in l:
                lines[i] = l.replace(key + ':', rng.choice(KEYS + ['foo', '']) + ':', 1)
                break
        else:
            lines[i] = l.replace(':', ' :', 1)
    elif k == 'truncate':
        cut = rng.randrange(0, len(l) + 1)
        lines = lines[:i] + [l[:cut]]
    elif k == 'indent':
        lines[i] = (' ' * rng.randrange(0, 12)) + l.lstrip()
    elif k == 'scalar2seq' and ':' in l:
        lines[i] = l.split(':', 1)[0] + ': [' + l.split(':', 1)[1].strip() + ', 1]'
    elif k == 'scalar2map' and ':' in l:
        lines[i] = l.split(':', 1)[0] + ': {a: ' + (l.split(':', 1)[1].strip() or 'b') + '}'
    elif k == 'badhex' and ':' in l:
        lines[i] = l.split(':', 1)[0] + ': ' + rng.choice(['0x', '0xZZ', '0x123456789', '0x1', '-1', '256', '0x100', '1e3', '0x-1', '07777777777777777777777', '0xDA000D680001E', '0xDA000D680001EEFF', "''", '~'])
    elif k == 'range' and ':' in l:
        lines[i] = l.split(':', 1)[0] + ': ' + str(rng.choice([-1, 32, 127, 128, 255, 256, 65536, 2 ** 31, 2 ** 64]))
    elif k == 'empty' and ':' in l:
        lines[i] = l.split(':', 1)[0] + ':'
    elif k == 'nullvalue' and ':' in l:
        lines[i] = l.split(':', 1)[0] + ': ' + rng.choice(['null', '~', '""', '!!str', '|', '>'])
    elif k == 'dupid':
        idl = [j for j in body if lines[j].strip().startswith(('- id:', 'id:'))]
        if len(idl) >= 2:
            a, b = rng.sample(idl, 2)
            lines[a] = lines[a].split('id:')[0] + 'id:' + lines[b].split('id:')[1]
        else:
            lines.insert(i, l)
    elif k == 'dupvalue':
        # give two elements the same value of some key (duplicate DCC addresses, numbers, ports, segment addresses, CVs, unique ids, bits)
        keyed = {}
        for j in body:
            t = lines[j].strip().lstrip('- ')
            if ':' in t and t.split(':', 1)[1].strip():
                keyed.setdefault(t.split(':', 1)[0], []).append(j)
        cand = [k2 for k2, v in keyed.items() if len(v) >= 2 and k2 not in ('id', 'value')] or [k2 for k2, v in keyed.items() if len(v) >= 2]
        if cand:
            key = rng.choice(cand)
            a, b = rng.sample(keyed[key], 2)
            lines[a] = lines[a].split(':', 1)[0] + ':' + lines[b].split(':', 1)[1]
        else:
            lines.insert(i, l)
    elif k == 'extrakey':
        # preferably behind the LAST attribute of an element (the next line closes it or starts the next list item)
        def indent(x):
            return len(lines[x]) - len(lines[x].lstrip())
        ends = [body[q] for q in range(len(body)) if q + 1 == len(body) or indent(body[q + 1]) < indent(body[q]) or lines[body[q + 1]].lstrip().startswith('- ')]
        if ends and rng.random() < 0.6:
            i = rng.choice(ends)
            l = lines[i]
        # an additional attribute behind an existing one (the documented layout tolerates extra scalars in some places): scalar, well-formed
        # nested list / mapping, and nested values that are themselves broken YAML (unterminated flow collection, bad nesting, block forms)
        ind = l[:len(l) - len(l.lstrip())]
        if l.lstrip().startswith('- '):
            ind += '  '
        ind = ind[:max(0, len(ind) - 2 * rng.choice([0, 0, 1, 2, 3]))]      # an attribute of the element itself or of one of the enclosing ones
        val = rng.choice(['x', '0x01', '[w1, w2]', '{a: b}', '[w1, w2', '{a: b', '[a, [b, c]', '{a: {b: c}', 'a: b: c', '[1, 2]]', '"unterminated', '[', '{', '- x',
                          '\n' + ind + '  - w1\n' + ind + '  - w2', '\n' + ind + '  a: 1\n' + ind + '  b: [1, 2', '\n' + ind + '    k: v\n' + ind + '  j: w', '!!binary |\n' + ind + '  ====', '&a [*a]'])
        lines.insert(i + 1, ind + rng.choice(['extra', 'wagons', 'note', 'length', 'id', 'type']) + ': ' + val)
    elif k == 'emptyelem':
        # a list element (with everything that belongs to it) is replaced by an empty / scalar / null element: "- {}", "- []", "- ~", "-", "- x"
        items = [j for j in body if lines[j].lstrip().startswith('- ')]
        if items:
            j = rng.choice(items)
            ind = len(lines[j]) - len(lines[j].lstrip())
            e = j + 1
            while e < len(lines) and (not lines[e].strip() or len(lines[e]) - len(lines[e].lstrip()) > ind):
                e += 1
            lines[j:e] = [' ' * ind + rng.choice(['- {}', '- []', '- ~', '-', '- x', '- {}', '- {id: }', '- ""'])]
        else:
            lines.insert(i, '- {}')
    elif k == 'alias':
        lines[i] = l.replace(': ', ': &anc ', 1) if rng.random() < 0.5 else (l.split(':', 1)[0] + ': *anc' if ':' in l else '- *anc')
    elif k == 'multidoc':
        lines.insert(i, rng.choice(['---', '...', '--- !!map', '%YAML 1.1']))
    elif k == 'tab':
        lines[i] = '\t' + l
    elif k == 'flow':
        lines[i] = l + rng.choice([' {', ' [', ' }', ' ]', ' ,', ' : :', ' "unterminated', " 'x", ' #c', ' - - -'])
    elif k == 'longscalar' and ':' in l:
        lines[i] = l.split(':', 1)[0] + ': ' + 'A' * rng.choice([255, 256, 1023, 1024, 5000])
    else:
        del lines[i]
        k = 'delete'
    return '\n'.join(lines), k

def semantic_faults(cfg, rng):
    """ambiguity faults on the abstract configuration: the classes C14 lists plus cross-kind collisions (a DCC signal re-using the address
    of a DCC point, a point re-using a signal's id ...), which C13 must survive whatever the verdict is"""
    from .C14 import faults
    fs = list(faults(cfg, rng))
    B = cfg['boards']
    dccs = [(bi, k, ai) for bi, b in enumerate(B) for k in ('points_dcc', 'signals_dcc') for ai, a in enumerate(b.get(k) or [])]
    for x in dccs:
        for y in dccs:
            if x != y:
                fs.append(('dcc-address-reused', f'{x}={y}', lambda c, x=x, y=y: c['boards'][x[0]][x[1]][x[2]].__setitem__('addr', c['boards'][y[0]][y[1]][y[2]]['addr'])))
    accs = [(bi, k, ai) for bi, b in enumerate(B) for k in ('points_board', 'points_dcc', 'signals_board', 'signals_dcc', 'peripherals', 'segments', 'reversers') for ai, a in enumerate(b.get(k) or [])]
    for _ in range(6):
        if len(accs) >= 2:
            x, y = rng.sample(accs, 2)
            fs.append(('id-reused-across-kinds', f'{x}={y}', lambda c, x=x, y=y: c['boards'][x[0]][x[1]][x[2]].__setitem__('id', c['boards'][y[0]][y[1]][y[2]]['id'])))
    return fs

def gen_case(ctx, k, valid):
    rng = ctx.sub_rng('c13', k)
    base = cfggen.gen_config(rng, nboards=rng.randrange(1, 4), wide_dcc=(k % 3 == 0), odd_ids=(k % 2 == 0))
    texts = [cfggen.board_yaml(base), cfggen.track_yaml(base), cfggen.train_yaml(base)]
    classes = []
    if k % 4 == 3:
        # a semantic ambiguity instead of a textual mutation
        from .C14 import apply_fault
        fs = semantic_faults(base, rng)
        if fs:
            f = rng.choice(fs)
            texts = list(apply_fault(base, f))
            classes.append('semantic:' + f[0])
    for _ in range(0 if classes and rng.random() < 0.7 else rng.choice([1, 1, 1, 2, 3])):
        f = rng.randrange(3)
        if texts[f] is None:
            continue
        texts[f], c = mutate_text(rng, texts[f])
        classes.append(('board', 'track', 'train')[f] + ':' + c)
    dm = cfggen.write_config(base, cfg_dir(f'c13m_{k}'), texts)
    vcfg, vnodes = valid
    dv = cfggen.write_config(vcfg, cfg_dir('c13valid'))
    nodes = cfggen.assign_tree(rng, base, absent_prob=0.1)
    silent = rng.random() < 0.25
    sc = Scn(seed=ctx.seed * 97 + k, watchdog=120000)
    if k % 3 == 0:
        # the process has already run a session with an accepted configuration: what that session left behind (tables, handles, statics) must
        # not matter to a start that is refused
        sc.add('bus clear', *cfggen.bus_lines(vcfg, vnodes), 'bus brackets 0', 'mark pre', f'start {dv} {rng.choice([0, 2])}', 'quiesce', 'stop')
    sc.add('bus clear')
    if silent:
        sc.add('bus mode silent')
    else:
        sc.add(*cfggen.bus_lines(base, nodes))
    sc.add('bus brackets 0', 'logerr 1')
    via = rng.choice(['pointer', 'pointer', 'pointer', 'serial', 'serial-nodevice'])       # the same configurations through bidib_start_serial (simulated device / no such device)
    for i in range(6):
        fi_ = rng.choice([0, 0, 2])
        st = f'start {dm} {fi_}' if via == 'pointer' else f'start_serial /dev/simbus {dm} {fi_}' if via == 'serial' else f'start_serial /dev/no-such-device {dm} {fi_}'
        sc.add(f'mark att{i}', st, 'stop', f'heap att{i}')
    sc.add('bus clear', *cfggen.bus_lines(vcfg, vnodes), 'bus brackets 1', 'mark restart', f'start {dv} 0', 'quiesce', 'snap v', 'stop', 'heap end')
    classes = classes + ['via:' + via]
    return sc.text(), classes, silent

def run(ctx):
    ctx.rule = ('1-3 structure-aware mutations (delete/duplicate/swap/rename key, truncate, re-indent, scalar<->sequence/mapping, bad hex, out-of-range, empty/null values, duplicate ids, '
                'duplicated values of any key, semantic ambiguities on the abstract configuration (every class of C14 plus cross-kind re-use of DCC addresses and ids), anchors/aliases, extra documents, tabs, flow-syntax debris, very long scalars, missing file, empty file, byte noise) over the three files of a generated valid '
                'configuration; six identical start attempts (answering or silent interface) followed by a start with a valid configuration, each case in its own process. '
                'non-trivial = distinct mutated triple that was rejected (return 1) and after which the valid restart was verified')
    ctx.assumptions = ['allocated bytes: a leak is growth at each of the attempts 4, 5 and 6 of six identical ones (single steps are one-time initialisations); LSan at exit', 'watchdog 120 s per case; a watchdog expiry inside bidib_start_pointer is a violation (statement: terminates)']
    vr = ctx.sub_rng('c13valid')
    vcfg = cfggen.gen_config(vr, nboards=3)
    vnodes = cfggen.assign_tree(vr, vcfg, absent_prob=0.0)
    jobs = [gen_case(ctx, k, (vcfg, vnodes)) for k in range(ctx.n(1200, 60000))]
    res = runner.run_many('asan', [(i, j[0]) for i, j in enumerate(jobs)], timeout=400, leaks=True)
    for j, r in zip(jobs, res):
        text, classes, silent = j
        meta = {'digest': hashlib.sha1(text.encode()).hexdigest()[:12], 'mutations': classes, 'silent': silent}
        ctx.evaluations += 1
        for c in classes:
            ctx.count('mut_' + c.split(':')[1])
        if ctx.generic_failures(r, meta):
            continue
        if runner.outcome(r) != 'ok':
            continue
        ev = r.events
        a0 = next((i for i, e in enumerate(ev) if e.get('e') == 'mark' and e.get('m') == 'att0'), 0)
        rets = [e for e in ev[a0:] if e.get('e') == 'ret' and e.get('f') == 'bidib_start_pointer']
        if len(rets) != 7:
            ctx.inconclusive.append('attempt count')
            continue
        bad = False
        for e in rets[:6]:
            if e.get('r') not in (0, 1):
                ctx.violation('return-value', 'start', f'bidib_start_pointer returned {e.get("r")}', text, 'asan', meta)
                bad = True
            elif e.get('r') == 1 and e.get('live_threads'):
                ctx.violation('threads-alive', 'after-failed-start', f'{e["live_threads"]} library threads alive after start returned 1 ({classes})', text, 'asan', meta)
                bad = True
        if bad:
            continue
        if len({e.get('r') for e in rets[:6]}) != 1:
            ctx.violation('not-repeatable', 'start', f'identical start attempts returned {[e.get("r") for e in rets[:6]]}', text, 'asan', meta)
            continue
        hp = {e['tag']: e['bytes'] for e in ev if e.get('e') == 'heap'}
        hs = [hp.get('att%d' % i) for i in range(6)]
        # a leak grows with every repetition; one-time lazy initialisations (libc, allocator statistics of exited threads) show as a single step
        if None not in hs and all(hs[i + 1] > hs[i] for i in range(2, 5)):
            ctx.violation('memory-not-released', 'start+stop', f'allocated bytes grow with every identical attempt: {hs} ({classes}, first result {rets[0].get("r")})', text, 'asan', meta)
            continue
        fds = [e.get('fds') for e in ev if e.get('e') == 'heap' and str(e.get('tag', '')).startswith('att')]
        if len(fds) == 6 and None not in fds and -1 not in fds and fds[5] > fds[0]:
            ctx.violation('descriptor-not-released', 'start+stop', f'open file descriptors after each of six identical attempts: {fds} ({classes}, first result {rets[0].get("r")})', text, 'asan', meta)
            continue
        ctx.count('fd_series_checked')
        if rets[6].get('r') != 0:
            ctx.violation('not-restartable', 'valid-config', f'after the rejected/accepted mutated configuration a start with a valid configuration returned {rets[6].get("r")}', text, 'asan', meta)
            continue
        snap = next((e for e in ev if e.get('e') == 'snap'), None)
        if snap:
            begin = max(i for i, e in enumerate(ev) if e.get('e') == 'mark' and e.get('m') == 'restart')
            b2, _ = fold.session_start_index(ev)
            m = statemodel.Model(vcfg, vnodes)
            diffs = []
            sd = []

            def on_snap(mm, e, diffs=diffs, sd=sd):
                cmp_enum(expected_enum(vcfg, mm), e['enum'], diffs)
                sd.extend(statemodel.compare_state(mm, e['state']))
            fold.fold(m, ev, max(begin, b2), None, on_snap)
            if diffs or sd:
                d0 = (diffs or sd)[0]
                ctx.violation('restart-state', 'getters', f'after the mutated attempts the valid session reports {d0[0]} = {d0[2]}, expected {d0[1]}', text, 'asan', meta)
                continue
        ctx.count('rejected' if rets[0].get('r') == 1 else 'accepted')
        if rets[0].get('r') == 1:
            ctx.nontrivial.add(meta['digest'])
    ctx.sample({'mutations': jobs[0][1], 'scenario_tail': jobs[0][0].split('\n')[-12:]})
    return ctx.finish(min_eval=200, min_nontrivial=50)
