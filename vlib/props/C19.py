"""C19 - Secure-ACK: each occupancy report of a SecAck board is mirrored exactly once, without waiting for a flush; boards without
the feature are never sent mirror messages. Oracle: per report the decoded wire up to the next quiescent point (no flush step is
issued); when the board's queue is blocked (stall / held message in front) the mirror is owed and must appear exactly once, in order,
after release."""
import hashlib

from .. import batch, cfggen, fold, model, runner, statemodel
from ..model import C
from ..scen import Scn, call, up
from .C07 import cfg_dir

MIRROR = {'MSG_BM_OCC': 'MSG_BM_MIRROR_OCC', 'MSG_BM_FREE': 'MSG_BM_MIRROR_FREE', 'MSG_BM_MULTIPLE': 'MSG_BM_MIRROR_MULTIPLE', 'MSG_BM_POSITION': 'MSG_BM_MIRROR_POSITION'}

def gen_report(rng, b):
    k = rng.choice(['MSG_BM_OCC', 'MSG_BM_FREE', 'MSG_BM_MULTIPLE', 'MSG_BM_POSITION'])
    if k in ('MSG_BM_OCC', 'MSG_BM_FREE'):
        segs = b.get('segments') or []
        num = rng.choice(segs)['address'] if segs and rng.random() < 0.6 else rng.randrange(256)
        return k, bytes([num])
    if k == 'MSG_BM_MULTIPLE':
        size = 8 * rng.randrange(1, 17)
        base = 8 * rng.randrange(0, (256 - size) // 8 + 1)
        return k, bytes([base, size]) + bytes(rng.randrange(256) for _ in range(size // 8))
    return k, bytes(rng.randrange(256) for _ in range(5))

def gen_scenario(ctx, k):
    rng = ctx.sub_rng('c19', k)
    cfg = cfggen.gen_config(rng, nboards=rng.randrange(1, 5), rich=False, with_initial=False, max_trains=1)
    for b in cfg['boards']:
        mode = rng.choice(['absent', 'zero', 'on', 'on'])
        f = [(n, v) for (n, v) in (b['features'] or []) if n != 3]
        # the SecAck feature may stand anywhere in the feature list
        if mode == 'zero':
            f.insert(rng.randrange(len(f) + 1), (3, 0))
        elif mode == 'on':
            f.insert(rng.randrange(len(f) + 1), (3, rng.choice([1, 5, 255])))
        b['features'] = f or None
        if not b.get('segments'):
            b['segments'] = [{'id': f'xs{b["id"]}_{i}', 'address': a, 'length': '1cm'} for i, a in enumerate(rng.sample(range(0, 128), rng.randrange(1, 6)))]
    variant = rng.choice(['plain', 'plain', 'stall', 'stall', 'budget'])
    if variant == 'stall':
        for b in cfg['boards']:
            if rng.random() < 0.6:
                b['uid'] = bytes([b['uid'][0] | 0x80]) + b['uid'][1:]      # hubs: boards beneath boards, so that stalls can nest
    d = cfggen.write_config(cfg, cfg_dir(f'c19_{k}'))
    nodes = cfggen.assign_tree(rng, cfg, absent_prob=rng.choice([0.0, 0.0, 0.3]), unknown=1)
    m = statemodel.Model(cfg, nodes)
    sc = Scn(seed=ctx.seed * 79 + k, watchdog=300000)
    prelude = variant == 'plain' and rng.random() < 0.5
    if prelude:
        # an earlier session of the same process with the SAME node tree but the opposite SecAck setting on every board: whether a report is
        # mirrored depends on the configuration of the session it arrives in, whoever reported from that address before
        import copy
        cfg2 = copy.deepcopy(cfg)
        for b in cfg2['boards']:
            f = [(n_, v_) for (n_, v_) in (b['features'] or []) if n_ != 3]
            if not cfggen.secack(b):
                f.append((3, 1))
            b['features'] = f or None
        d2 = cfggen.write_config(cfg2, cfg_dir(f'c19_{k}_pre'))
        m2 = statemodel.Model(cfg2, nodes)
        conn2 = [b for b in cfg2['boards'] if m2.connected(b['id'])]
        sc.add(*cfggen.bus_lines(cfg2, nodes), 'bus brackets 0', 'bus policy 19 never', f'start {d2} 0', 'quiesce', 'mark pre')
        for _ in range(rng.randrange(1, 6)):
            if conn2:
                b2 = rng.choice(conn2)
                kind2, data2 = gen_report(rng, b2)
                sc.add(up(model.build_msg(m2.addr[b2['id']], 0, C(kind2), data2)), 'quiesce')
        sc.add('stop', 'bus clear')
    sc.add(*cfggen.bus_lines(cfg, nodes), 'bus brackets 0', 'bus policy 19 never', f'start {d} 0', 'quiesce', 'flush', 'quiesce')
    conn = [b for b in cfg['boards'] if m.connected(b['id'])]
    cases = []
    reused = [0]
    blocked_board = rng.choice(conn) if conn and variant != 'plain' else None
    if variant == 'stall' and conn:
        def _below(x):
            ax = m.addr[x['id']]
            dx = 0 if ax == (0, 0, 0) else 1 if ax[1] == 0 else 2 if ax[2] == 0 else 3
            return [y for y in conn if y is not x and 0 < dx < 3 and m.addr[y['id']][:dx] == ax[:dx]]
        hubs = [x for x in conn if _below(x)]
        if hubs and rng.random() < 0.7:
            blocked_board = rng.choice(hubs)
    if blocked_board is not None:
        ad = m.addr[blocked_board['id']]
        if variant == 'stall':
            if ad == (0, 0, 0):
                variant = 'budget'
            else:
                sc.add(up(model.build_msg(ad, 0, C('MSG_STALL'), b'\x01')), 'quiesce')
        if variant == 'budget':
            # two 30-byte requests that are never answered: the second one is held, everything later queues behind it
            sc.add(call('bidib_send_string_get', ad[0], ad[1], ad[2], 0, 0, 0), call('bidib_send_string_get', ad[0], ad[1], ad[2], 0, 1, 0), 'flush', 'quiesce')
    # nested flow control: a board beneath the stalled one stalls as well (after some of its reports are already held) and the two stalls end
    # in either order - every owed mirror still goes out exactly once after the last one ended
    nested = None
    if blocked_board is not None and variant == 'stall':
        ba_ = m.addr[blocked_board['id']]
        dpt_ = 1 if ba_[1] == 0 else 2 if ba_[2] == 0 else 3
        below = [b for b in conn if b is not blocked_board and dpt_ < 3 and m.addr[b['id']][:dpt_] == ba_[:dpt_]]
        if below and rng.random() < 0.7:
            nested = rng.choice([b for b in below if cfggen.secack(b)] or below)
    n = rng.randrange(5, 40)
    nested_at = rng.randrange(1, n) if nested is not None else -1
    MALFORMED = [bytes([9, 0, 1, 0xA0]), bytes([2, 0, 0]), bytes([200]), bytes([5, 1, 2, 3, 4, 5]), bytes([4, 0, 0, 0xA0]), bytes([0])]
    reuse_at = rng.randrange(1, n) if variant == 'plain' and rng.random() < 0.5 else -1
    for i in range(n):
        if i == nested_at:
            na_ = m.addr[nested['id']]
            sc.add(f'mark cy{i}', up(model.build_msg(na_, 0, C('MSG_STALL'), b'\x01')), 'quiesce')
        if i == reuse_at:
            # a board drops off the bus and ANOTHER configured board logs on at the address that became free: whether reports from that
            # address are mirrored depends on the board that is there NOW
            movable = [b for b in conn if m.addr[b['id']] != (0, 0, 0) and m.addr[b['id']][1] == 0 and not cfggen.is_interface(b)]
            others = [b for b in cfg['boards'] if not cfggen.is_interface(b)]
            if movable and len(others) > 1:
                a_ = rng.choice([b for b in movable if cfggen.secack(b)] or movable)
                diff = [b for b in others if b is not a_ and cfggen.secack(b) != cfggen.secack(a_)]
                b_ = rng.choice(diff or [b for b in others if b is not a_])
                if rng.random() < 0.4:
                    b_ = a_           # the lost board itself logs on again: it is the same configured board, with the same SecAck setting
                old = m.addr[a_['id']]
                lost = bytes([2, old[0]]) + a_['uid']
                new = bytes([3, old[0]]) + b_['uid']
                sc.add('mark cx0', f'bus delnode {old[0]}.0.0', up(model.build_msg((0, 0, 0), 0, C('MSG_NODE_LOST'), lost)), 'quiesce')
                m.on_uplink((0, 0, 0), C('MSG_NODE_LOST'), lost)
                if m.connected(b_['id']):
                    ob = m.addr[b_['id']]
                    sc.add(f'bus delnode {ob[0]}.{ob[1]}.{ob[2]}')
                sc.add(f'bus node {old[0]}.0.0 {b_["uid"].hex()}', up(model.build_msg((0, 0, 0), 0, C('MSG_NODE_NEW'), new)), 'quiesce')
                m.on_uplink((0, 0, 0), C('MSG_NODE_NEW'), new)
                conn = [b for b in cfg['boards'] if m.connected(b['id'])]
                reused[0] = 1
        # one packet: usually one report, sometimes several reports / other messages, sometimes a malformed message at its end
        nm = 1 if rng.random() < 0.6 else rng.randrange(2, 5)
        reports, payload = [], []
        for _ in range(nm):
            src = rng.choice(conn + [None]) if conn else None
            if src is None:
                ad = (250, 0, 0)          # outside the address ranges the tree generator uses
                b = {'segments': []}
            else:
                b = src
                ad = m.addr[b['id']]
            if nm > 1 and rng.random() < 0.25:
                payload.append(model.build_msg(ad, 0, C(rng.choice(['MSG_BM_CURRENT', 'MSG_SYS_PONG', 'MSG_BM_CONFIDENCE'])), bytes([250, 0, 0])))
                continue
            kind, data = gen_report(rng, b)
            blk = False
            if blocked_board is not None and src is not None:
                ba = m.addr[blocked_board['id']]
                if variant == 'stall':
                    from ..flow import Flow
                    blk = tuple(ba) in Flow.ancestors_or_self(tuple(ad))      # a stalled node blocks its whole subtree
                else:
                    blk = tuple(ba) == tuple(ad)
            reports.append((ad, kind, data, src['id'] if src else None, bool(src and cfggen.secack(src)), blk))
            payload.append(model.build_msg(ad, 0, C(kind), data))
        tail = rng.choice(MALFORMED) if rng.random() < 0.12 else None
        if tail is not None:
            payload.append(tail)
        cases.append((reports, tail is not None))
        sc.add(f'mark c{i}', up(*payload), 'quiesce')
    sc.add(f'mark c{n}')
    if blocked_board is not None:
        ad = m.addr[blocked_board['id']]
        if variant == 'stall':
            offs = [ad] + ([m.addr[nested['id']]] if nested is not None else [])
            if rng.random() < 0.5:
                offs.reverse()
            for oa in offs:
                sc.add(up(model.build_msg(oa, 0, C('MSG_STALL'), b'\x00')), 'quiesce')
        else:
            # time passes, then any message from that node lets the library notice the expiry
            sc.add('advance 3', up(model.build_msg(ad, 0, C('MSG_BM_CURRENT'), bytes([250, 0]))), 'quiesce')
    sc.add(f'mark c{n + 1}', 'stop')
    return sc.text(), cfg, nodes, cases, variant + ('+nested' if nested is not None else '') + ('+address-reuse' if reused[0] else '') + ('+earlier-session' if prelude else ''), blocked_board['id'] if blocked_board else None

def gen_directed(ctx, k):
    """the application reads (and frees) the message queue while the receiver is parked at its p-th scheduling point inside the handling of
    ONE report of a SecAck board: whatever the application does with the report it was handed, the mirror carries the reported bytes"""
    from .. import sweep
    rng = ctx.sub_rng('c19d', k)
    cfg = cfggen.gen_config(rng, nboards=rng.randrange(1, 3), rich=False, with_initial=False, max_trains=1)
    for b in cfg['boards']:
        b['features'] = [(n_, v_) for (n_, v_) in (b['features'] or []) if n_ != 3] + [(3, 1)]
        if not b.get('segments'):
            b['segments'] = [{'id': f'xs{b["id"]}_{i}', 'address': a, 'length': '1cm'} for i, a in enumerate(rng.sample(range(0, 128), 3))]
    d = cfggen.write_config(cfg, cfg_dir(f'c19d_{k}'))
    nodes = cfggen.assign_tree(rng, cfg, absent_prob=0.0, unknown=0)
    m = statemodel.Model(cfg, nodes)
    sc = Scn(seed=ctx.seed * 97 + k, watchdog=300000)
    sc.add(*cfggen.bus_lines(cfg, nodes), 'bus brackets 0', 'bus policy 19 never', f'start {d} 0', 'quiesce', 'flush', 'quiesce', 'drain')
    conn = [b for b in cfg['boards'] if m.connected(b['id'])]
    cases = []
    fn = bool(k % 2)
    for p_ in (range(1, 21) if not fn else range(1, 50, 2)):
        b = rng.choice(conn)
        ad = m.addr[b['id']]
        kind, data = gen_report(rng, b)
        if k % 3 == 0:
            kind, data = 'MSG_BM_POSITION', bytes(rng.randrange(1, 256) for _ in range(5))
        sweep.add_receiver_case(sc, len(cases), [up(model.build_msg(ad, 0, C(kind), data))], ['readm', 'readm'], p_, fn, after=('release', 'quiesce', 'drain'))
        cases.append(([(ad, kind, data, b['id'], True, False)], False))
    n = len(cases)
    sc.add(f'mark c{n}', f'mark c{n + 1}', 'stop')
    return sc.text(), cfg, nodes, cases, 'directed-reader', None

def evaluate(ctx, r, cfg, nodes, cases, variant, blocked, meta):
    if ctx.generic_failures(r, meta):
        return
    if runner.outcome(r) != 'ok':
        return
    rets = [e for e in r.events if e.get('e') == 'ret' and e.get('f') == 'bidib_start_pointer']
    if not rets or any(e.get('r') != 0 for e in rets):
        ctx.inconclusive.append('start failed')
        return
    ctx.evaluations += 1
    seen = batch.split_by_marks(r.events)
    mirror_types = {C(v) for v in MIRROR.values()}
    owed = []
    nmir = 0
    for i, (reports, malformed_tail) in enumerate(cases):
        evs = seen.get(i, [])
        mir = [(tuple(e['addr']), e['type'], bytes.fromhex(e['data'])) for e in evs if e.get('e') == 'txm' and e['type'] in mirror_types]
        exp = []
        for (ad, kind, data, bid, sec, blk) in reports:
            if sec and blk:
                owed.append((tuple(ad), C(MIRROR[kind]), data))
            elif sec:
                exp.append((tuple(ad), C(MIRROR[kind]), data, kind, bid))
        desc = '; '.join(f'{kind} {data.hex()} from {ad} (board {bid}, SecAck {"on" if sec else "off"}{", blocked" if blk else ""})' for (ad, kind, data, bid, sec, blk) in reports)
        site = (reports[0][1].replace('MSG_BM_', '').lower() if len(reports) == 1 else 'multi-message-packet') + ('+malformed-tail' if malformed_tail else '')
        if malformed_tail and not mir:
            # a packet whose last message is malformed may be rejected as a whole (then nothing of it is mirrored - and a mirror that shows up
            # later would be reported in that later window); if the library does process the reports in front, the mirrors are due now
            continue
        if len(mir) != len(exp):
            if not exp:
                cls = 'mirror-without-secack' if any(not r_[4] for r_ in reports) else 'mirror-into-blocked-node' if reports else 'mirror-without-report'
            else:
                cls = 'mirror-missing' if len(mir) < len(exp) else 'mirror-duplicated'
            ctx.violation(cls, site, f'packet with [{desc}]: {len(mir)} mirror messages on the wire at the next quiescent point (no flush issued), expected {len(exp)}: '
                          f'{[(a, hex(t), d.hex()) for a, t, d in mir][:4]}', r.scenario, r.flavour, meta)
            return
        for g, e in zip(mir, exp):
            if g != e[:3]:
                if ctx.violation('mirror-payload', e[3].replace('MSG_BM_', '').lower(), f'report {e[3]} {e[2].hex()} from {e[0]}: mirror is type {g[1]:#x} data {g[2].hex()} to {g[0]}, '
                                 f'expected type {e[1]:#x} data {e[2].hex()}', r.scenario, r.flavour, meta):
                    return
        nmir += len(mir)
        if len(reports) > 1:
            ctx.count('multi_report_packets')
        if malformed_tail:
            ctx.count('packets_with_malformed_tail_mirrored')
    if blocked is None:
        # nothing is owed: no mirror may show up later (released by the flush of bidib_stop, say)
        late = [e for k_ in (len(cases), len(cases) + 1) for e in seen.get(k_, []) if e.get('e') == 'txm' and e['type'] in mirror_types]
        if late:
            ctx.violation('mirror-delayed', 'until-later-flush', f'{len(late)} mirror message(s) reached the wire only at shutdown: they had been waiting for a flush', r.scenario, r.flavour, meta)
            return
    if blocked is not None:
        evs = seen.get(len(cases), [])
        mir = [(tuple(e['addr']), e['type'], bytes.fromhex(e['data'])) for e in evs if e.get('e') == 'txm' and e['type'] in mirror_types]
        pos_t = C('MSG_BM_MIRROR_POSITION')
        def pernode(lst):
            d = {}
            for x in lst:
                d.setdefault(x[0], []).append(x)
            return d
        if pernode([x for x in mir if x[1] != pos_t]) != pernode([x for x in owed if x[1] != pos_t]) or len(mir) != len(owed):
            ctx.violation('owed-mirrors', variant, f'after the {variant} block of board {blocked} was lifted {len(mir)} mirrors appeared, {len(owed)} were owed (in order, exactly once): '
                          f'got {[(hex(t), d.hex()) for a, t, d in mir][:4]} owed {[(hex(t), d.hex()) for a, t, d in owed][:4]}', r.scenario, r.flavour, meta)
            return
        pm, po = pernode(mir), pernode(owed)
        for g, e in [(g, e) for nd in po for g, e in zip(pm.get(nd, []), po[nd])]:
            if g != e:
                if ctx.violation('mirror-payload', 'position' if e[1] == pos_t else 'owed', f'owed mirror: got data {g[2].hex()}, expected {e[2].hex()}', r.scenario, r.flavour, meta):
                    return
        nmir += len(mir)
    ctx.count('mirrors_checked', nmir)
    if variant == 'directed-reader':
        from .. import sweep
        sweep.pause_stats(ctx, r.events, 'directed')
    if 'earlier-session' in variant:
        ctx.count('scenarios_with_earlier_session_of_opposite_secack')
    if 'address-reuse' in variant:
        ctx.count('scenarios_with_address_reuse')
    if '+nested' in variant:
        ctx.count('scenarios_with_nested_stall')
    if nmir:
        ctx.nontrivial.add(meta['digest'])

def run(ctx):
    ctx.rule = ('1-4 boards with feature 0x03 absent / 0 / >0, 5-40 packets of occupied/free/multiple/position reports (40 % of the packets carry 2-4 messages from several nodes, 12 % end in a malformed message) with arbitrary detector numbers and bitmap sizes 8..128 from '
                'connected boards and an unknown node, no flush step; variants: the reporting board stalled, its queue blocked by a held 30-byte request, or a board lost and another configured board (SecAck setting differs) logging on at the freed address; configured boards may be absent. '
                'non-trivial = distinct scenario in which >=1 mirror was checked')
    ctx.assumptions = ['a report counts from the quiescent point after it was fed', 'mirror messages have no response, so only a stall or a held message in front can delay them']
    jobs = [gen_scenario(ctx, k) for k in range(ctx.n(250, 9000))] + [gen_directed(ctx, k) for k in range(ctx.n(12, 300))]
    res = runner.run_many('asan', [(i, j[0]) for i, j in enumerate(jobs)], timeout=600)
    for j, r in zip(jobs, res):
        meta = {'digest': hashlib.sha1(j[0].encode()).hexdigest()[:12], 'variant': j[4]}
        evaluate(ctx, r, j[1], j[2], j[3], j[4], j[5], meta)
    ctx.sample({'variant': jobs[0][4], 'packets': [[(list(c[0]), c[1], c[2].hex(), c[4]) for c in rep] + (['malformed tail'] if mt else []) for rep, mt in jobs[0][3][:6]]})
    return ctx.finish(min_eval=50, min_nontrivial=20)
