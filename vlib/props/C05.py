"""C05 - per-node sequence numbers are consecutive in wire order under any interleaving.
Oracle: strict decode of everything written, per destination node 1,2,...,255,1,... in wire order; 0 only while numbering
is off during connection probing; expectation restarts after a MSG_SYS_RESET on the wire."""
import hashlib
import os
from collections import defaultdict

from .. import gen, model, runner, spec_lowlevel as S
from .. import sweep
from ..scen import Scn, call, up
from .C01 import bus_lines, ADDRS, normal_start_line

BUDGETED = ['bidib_send_sys_ping', 'bidib_send_feature_get', 'bidib_send_string_get', 'bidib_send_sys_get_sw_version',
            'bidib_send_boost_query', 'bidib_send_accessory_get', 'bidib_send_lc_port_query', 'bidib_send_cs_set_state']

def gen_scn(ctx, k, flavour):
    rng = ctx.sub_rng('c05', k)
    nt = rng.choice([2, 2, 3, 4, 8, 16])
    nodes = rng.sample(ADDRS, rng.choice([1, 1, 2, 3]))
    if rng.random() < 0.3:
        nodes = list(rng.choice([[(1, 200, 0), (2, 200, 0)], [(1, 1, 144), (1, 2, 144)], [(3, 254, 253), (4, 254, 253)]]))
    normal = (k % 5 == 4)
    fi = rng.choice([0, 0, 1, 3])
    sc = Scn(seed=ctx.seed * 7919 + k, perturb=rng.choice([0, 100, 300, 700]), watchdog=240000)
    if normal:
        sc.add(*bus_lines(ADDRS), normal_start_line().replace(' 0', f' {fi}'))
        nodes = [(0, 0, 0)] + [n for n in nodes if n != (0, 0, 0)][:1]
    else:
        sc.add(*bus_lines(), 'debug 1', f'start @null {fi}')
    # enough messages per node to cross the 255 -> 1 wrap
    total = rng.choice([300, 620, 900]) * len(nodes)
    per = max(5, total // nt)
    zr = gen.zero_response_names()
    mix = rng.choice(['zero', 'mixed', 'budgeted'])
    sc.add(f'par {nt + (1 if normal else 0)}')
    cnt = 0
    if normal:
        # one more thread is the peer: spontaneous messages and error reports of every kind from the same nodes (a sequence-error report, a
        # capacity announcement, feedback about unknown equipment ...) - nothing a node says changes the numbering of what is sent to it
        from .. import uplink
        kinds = [n_ for n_ in uplink.KNOWN_UP if n_ not in ('MSG_NODE_LOST', 'MSG_NODE_NEW', 'MSG_SYS_MAGIC', 'MSG_NODETAB_COUNT', 'MSG_NODETAB')]
        for j in range(rng.randrange(40, 120)):
            n_ = rng.choice(kinds) if rng.random() < 0.7 else 'MSG_SYS_ERROR'
            sc.add(f't {nt} ' + up(model.build_msg(rng.choice(nodes), rng.choice([0, 0, rng.randrange(1, 256)]), model.C(n_), uplink.payload(rng, n_))))
    for t in range(nt):
        for j in range(per):
            ad = rng.choice(nodes)
            if mix == 'zero' or (mix == 'mixed' and rng.random() < 0.6):
                name, ad2, a, data = gen.random_call(rng, ad, names=zr, hot=0.3, long_bias=0.02)
            else:
                name, ad2, a, data = gen.random_call(rng, ad, names=BUDGETED, hot=0.3)
            sc.add(f't {t} ' + call(name, *S.tokens(name, ad2, a)))
            cnt += 1
            if rng.random() < 0.05:
                sc.add(f't {t} flush')
    sc.add('endpar')
    for _ in range(6):
        sc.add('flush', 'quiesce')
    sc.add('mark done', 'stop')
    return sc.text(), {'threads': nt, 'nodes': nodes, 'mix': mix, 'normal': normal, 'calls': cnt, 'fi': fi}

def seq_scan(wire, probing):
    """per destination node 1,2,...,255,1,... in wire order; 0 only while numbering is off during connection probing. After a MSG_SYS_RESET on
    the wire every node's numbering restarts once: the library resets its tables 1.5 s after the reset message went out, messages that were
    held for a node and are released in between still continue the old numbering; once the new enumeration has begun (MSG_NODETAB_GETALL to
    the interface) nothing may continue it. Returns ((kind, text) or None, number of 255->1 wraps)."""
    expect = {}
    RESET, GETALL = model.C('MSG_SYS_RESET'), model.C('MSG_NODETAB_GETALL')
    wraps = 0
    restarted = set()
    reset_seen = enum_started = False
    for i, w in enumerate(wire):
        ad = tuple(w['addr'])
        if probing and w['seq'] == 0:
            continue                       # numbering switched off during connection probing
        probing = False
        exp = expect.get(ad, 1)
        if reset_seen and ad not in restarted:
            if w['seq'] == 1 and (exp != 1 or True):
                restarted.add(ad)
                exp = 1
            elif enum_started and ad in expect:
                prev = [x['seq'] for x in wire[max(0, i - 6):i + 3] if tuple(x['addr']) == ad]
                return ('no-restart-after-reset', f'node {ad}: message #{i} type {w["type"]:#x} has seq {w["seq"]}: the numbering of before the system reset goes on after the new enumeration has begun (neighbourhood {prev})'), wraps
        if w['seq'] != exp:
            prev = [x['seq'] for x in wire[max(0, i - 6):i + 3] if tuple(x['addr']) == ad]
            kind = 'zero-outside-probing' if w['seq'] == 0 else 'not-consecutive'
            return (kind, f'node {ad}: message #{i} type {w["type"]:#x} has seq {w["seq"]}, expected {exp} (neighbourhood {prev})'), wraps
        if exp == 255:
            wraps += 1
        expect[ad] = model.seq_next(exp)
        if w['type'] == RESET:
            reset_seen, enum_started, restarted = True, False, set()
        elif reset_seen and w['type'] == GETALL and ad == (0, 0, 0):
            enum_started = True
    return None, wraps

def check_wire(ctx, r, meta):
    if ctx.generic_failures(r, meta):
        return
    if runner.outcome(r) != 'ok':
        return
    stream = b''.join(bytes.fromhex(e['hex']) for e in r.events if e.get('e') == 'tx')
    try:
        pk = model.strict_deframe(stream)
        wire = [model.parse_msg(m) for p in pk for m in model.split_messages(p['payload'])]
    except model.FrameError as e:
        ctx.violation('framing', 'wire', str(e), r.scenario, r.flavour, meta)
        return
    bad, wraps = seq_scan(wire, meta['normal'])
    if bad:
        ctx.violation(bad[0], 'seq', bad[1] + f'; {meta["threads"]} threads, mix {meta["mix"]}', r.scenario, r.flavour, meta)
        return
    ctx.evaluations += 1
    ctx.count('wire_messages', len(wire))
    ctx.count('wraps_255_to_1', wraps)
    ctx.add_set('interleavings', hashlib.sha1(repr([(tuple(w['addr']), w['type'], w['data'][:2]) for w in wire]).encode()).hexdigest())
    if wraps and meta['threads'] >= 2:
        ctx.nontrivial.add(meta['digest'])

# ------------------------------------------------------------------ directed preemption sweep
SWEEP_FNS = ['bidib_send_sys_enable', 'bidib_send_sys_clock', 'bidib_send_sys_ping', 'bidib_send_sys_get_sw_version']

def gen_sweep(ctx, part, pairs, ks, fn):
    """One process: for every (A, B) of `pairs` and every k of `ks`, thread 0 is paused at the k-th scheduling point of A (same node),
    thread 1 then runs B completely. Variants: 'plain' (budget free), 'held' (budget exhausted by unanswered string requests: A and B
    are deferred and later released by the receiver thread), 'recv' (B is not a call but an answer whose processing makes the
    receiver thread transmit held messages while A is paused)."""
    rng = ctx.sub_rng('c05sweep', part)
    sc = Scn(seed=ctx.seed * 31 + part, perturb=0, watchdog=240000)
    sc.add('bus mode silent', 'bus brackets 0', 'debug 1', 'start @null 0', 'quiesce')
    PONG, SWV, STR = model.C('MSG_SYS_PONG'), model.C('MSG_SYS_SW_VERSION'), model.C('MSG_STRING')
    ans = {'bidib_send_sys_ping': (PONG, b'\x01'), 'bidib_send_sys_get_sw_version': (SWV, b'\x01\x02\x03')}
    idx = 0
    sent = 0
    for (fa, fb, variant, ad) in pairs:
        for k in ks:
            def mk(name):
                nm, ad2, a, data = gen.random_call(rng, ad, names=[name], hot=0.1)
                return call(nm, *S.tokens(nm, ad, a))
            pre, post = [], []
            if variant in ('held', 'recv', 'recvpaused'):
                # 30 + 30 bytes of expected answers: nothing with a response fits any more
                pre = [mk('bidib_send_string_get'), mk('bidib_send_string_get'), 'flush']
                post = [up(model.build_msg(ad, 0, STR, b'\x00\x00\x00')), up(model.build_msg(ad, 0, STR, b'\x00\x00\x00')), 'quiesce', 'flush', 'quiesce']
                sent += 2
            sc.add(*pre)
            if variant == 'recv':
                # two held messages; the answer to the first string request lets the receiver transmit them while A is paused
                sc.add(mk('bidib_send_sys_ping'), mk('bidib_send_sys_get_sw_version'))
                sent += 2
                b_lines = [up(model.build_msg(ad, 0, STR, b'\x00\x00\x00')), 'settle']
                post = post[1:] + [up(model.build_msg(ad, 0, PONG, b'\x01')), up(model.build_msg(ad, 0, SWV, b'\x01\x02\x03')), 'quiesce']
                sweep.add_two_thread_case(sc, idx, [mk(fa)], b_lines, k, fn, after=('quiesce', 'flush', 'quiesce'))
                sent += 1
                fbs = []
            elif variant == 'recvpaused':
                # the other way round: the RECEIVER is parked at its k-th scheduling point while it handles the answer that releases two held
                # messages, and the application submits A to the same node right then - A is younger than what is being released
                sc.add(mk('bidib_send_sys_ping'), mk('bidib_send_sys_get_sw_version'))
                sent += 2
                post = post[1:] + [up(model.build_msg(ad, 0, PONG, b'\x01')), up(model.build_msg(ad, 0, SWV, b'\x01\x02\x03')), 'quiesce']
                sweep.add_receiver_case(sc, idx, [up(model.build_msg(ad, 0, STR, b'\x00\x00\x00'))], [mk(fa)], k, fn, after=('release', 'quiesce', 'flush', 'quiesce'))
                sent += 1
                fbs = []
            else:
                sweep.add_two_thread_case(sc, idx, [mk(fa)], [mk(fb)], k, fn, after=('flush', 'quiesce'))
                sent += 2
                fbs = [fb]
            sc.add(*post)
            # answer what A and B asked for, so that the budget is free again for the next case
            # (the library matches an answer against the oldest awaited response only, and the wire order of A and B depends on the schedule)
            for f in ([fa] + fbs) * 2:
                if f in ans:
                    sc.add(up(model.build_msg(ad, 0, ans[f][0], ans[f][1])))
            sc.add('quiesce', 'flush', 'quiesce')
            idx += 1
    sc.add('mark done', 'stop')
    return sc.text(), {'threads': 2, 'normal': False, 'mix': 'directed-sweep', 'cases': idx, 'sent': sent, 'fn': fn}

def run_sweep(ctx):
    nodes = [(0, 0, 0), (1, 0, 0), (1, 2, 3)]
    allpairs = [(a, b, v, nodes[(i + j) % 3]) for i, a in enumerate(SWEEP_FNS) for j, b in enumerate(SWEEP_FNS) for v in ('plain', 'held')]
    allpairs += [(a, None, 'recv', nodes[i % 3]) for i, a in enumerate(SWEEP_FNS)]
    allpairs += [(a, None, 'recvpaused', nodes[(i + 1) % 3]) for i, a in enumerate(SWEEP_FNS)]
    jobs = []
    part = 0
    kl, kf = (range(1, 13), range(1, 41)) if ctx.quick else (range(1, 15), range(1, 61))
    sel = allpairs if not ctx.quick else [p for i, p in enumerate(allpairs) if (i + ctx.seed) % 3 == 0 or p[2] in ('recv', 'recvpaused')]
    for i in range(0, len(sel), 3):
        for fn, ks in ((False, kl), (True, kf)):
            text, meta = gen_sweep(ctx, part, sel[i:i + 3], ks, fn)
            meta['digest'] = hashlib.sha1(text.encode()).hexdigest()[:12]
            jobs.append(('mon' if part % 2 else 'asan', text, meta))
            part += 1
    for fl in ('asan', 'mon'):
        js = [j for j in jobs if j[0] == fl]
        res = runner.run_many(fl, [(i, j[1]) for i, j in enumerate(js)], timeout=900)
        for j, r in zip(js, res):
            before = ctx.evaluations
            check_wire(ctx, r, j[2])
            if ctx.evaluations == before:
                continue
            n = sweep.pause_stats(ctx, r.events)
            onwire = sum(1 for e in r.events if e.get('e') == 'txm')
            if onwire != j[2]['sent']:
                ctx.violation('lost-or-duplicated', 'sweep', f'directed sweep submitted {j[2]["sent"]} messages and answered every request; {onwire} are on the wire', r.scenario, r.flavour, j[2])
            ctx.count('sweep_cases', j[2]['cases'])
            if n >= 10:
                ctx.nontrivial.add(j[2]['digest'])

# ------------------------------------------------------------------ the library's own traffic: workloads of the other checks under the C05 oracle
def run_borrowed(ctx):
    """The statement covers every submitter, not only application threads calling low-level send functions: the start-up dialogue, node
    new / lost notices and their acknowledgements, SecAck mirrors and accessory queries sent by the receiver thread, high-level commands,
    stall and budget release, system reset, the shutdown sequence, several sessions per process. The scenario generators of the checks
    that drive those paths are re-used; here only the per-node sequence rule is judged, per session."""
    import importlib
    jobs = []
    for mod, fn, n, pick in (('C15', 'gen_scenario', 30, 0), ('C19', 'gen_scenario', 20, 0), ('C20', 'gen_scenario', 15, 0), ('C04', 'gen_seq', 20, 0),
                             ('C04', 'gen_stress', 8, 0), ('C03', 'gen_stress', 8, 0), ('C09', 'gen_scenario', 4, 0), ('C16', 'gen_scenario', 40, 0)):
        m_ = importlib.import_module('vlib.props.' + mod)
        for k in range(ctx.n(n, n * 30)):
            try:
                out = getattr(m_, fn)(ctx, 100000 + k)
            except Exception as e:                                  # a generator that cannot be borrowed must not look like a verdict
                ctx.inconclusive.append(f'borrowed generator {mod}.{fn}: {e!r}')
                break
            text = out[0] if isinstance(out, tuple) else out
            jobs.append((mod + '.' + fn, text))
    res = runner.run_many('asan', [(i, j[1]) for i, j in enumerate(jobs)], timeout=900)
    for (src, text), r in zip(jobs, res):
        meta = {'threads': 'library', 'mix': 'borrowed:' + src, 'normal': True, 'digest': hashlib.sha1(text.encode()).hexdigest()[:12]}
        if runner.outcome(r) != 'ok':
            continue                                                # judged by the check that owns the scenario
        # one wire per session
        sessions, cur, running, modes = [], None, False, []
        for e in r.events:
            if e.get('e') == 'call' and e.get('f') == 'bidib_start_pointer':
                if not running:                                     # a start while running does nothing
                    cur = []
                    sessions.append(cur)
                    modes.append(e.get('dir') == '@null')           # low-level debug session: no connection probing, numbering is on from the first message
                    running = True
            elif e.get('e') == 'ret' and (e.get('f') == 'bidib_stop' or (e.get('f') == 'bidib_start_pointer' and e.get('r') != 0 and len(sessions) and not cur)):
                running = False if e.get('f') == 'bidib_stop' else running
            elif e.get('e') == 'tx' and cur is not None:
                cur.append(bytes.fromhex(e['hex']))
            if e.get('e') == 'ret' and e.get('f') == 'bidib_start_pointer' and e.get('r') == 1 and e.get('live_threads') == 0:
                running = False                                     # a failed start has stopped the library again
        nmsg = 0
        bad = None
        for chunks, dbg in zip(sessions, modes):
            try:
                wire = [model.parse_msg(m) for p in model.strict_deframe(b''.join(chunks)) for m in model.split_messages(p['payload'])]
            except model.FrameError:
                wire = None                                         # framing is C01's business
            if not wire:
                continue
            nmsg += len(wire)
            bad, _w = seq_scan(wire, not dbg)
            if bad:
                break
        if bad:
            ctx.violation(bad[0], 'seq', bad[1] + f'; workload {src}', text, 'asan', meta)
            continue
        ctx.evaluations += 1
        ctx.count('borrowed_sessions', len(sessions))
        ctx.count('borrowed_wire_messages', nmsg)
        ctx.add_set('borrowed_workloads', src)
        ups = {e.get('payload', '')[6:8] for e in r.events if e.get('e') == 'up'}
        if nmsg > 10:
            ctx.nontrivial.add(meta['digest'])

def run(ctx):
    ctx.rule = ('2-16 application threads sending zero-response and budgeted messages to 1-3 nodes (>=300..900 messages per node, so the '
                '255->1 wrap is crossed), auto-flush 0-3 ms, lock-level perturbation 0-70%, debug and normal mode, asan and tsan flavours. '
                'non-trivial = distinct scenario with >=2 threads in which at least one node wrapped 255->1. Directed sweep: for pairs of send '
                'functions (data-less / with data, zero-response / budgeted, budget free / exhausted) to one node, thread A is paused at each of its first 12-60 '
                'scheduling points (lock operations; library function entries) while thread B - or the receiver releasing held messages - runs completely; '
                'non-trivial there = process in which >= 10 cases really paused. Borrowed workloads: scenarios of C03/C04/C09/C15/C16/C19/C20 (start-up dialogue, node new/lost, '
                'SecAck mirrors, stall/budget release by the receiver thread, high-level commands, reset, several sessions) judged per session by the sequence rule only')
    ctx.assumptions = ['reference decoder', 'simulated bus answers every request (deferred messages are released by the receiver thread)']
    jobs = []
    n = ctx.n(40, 1000)
    only = os.environ.get('VERIF_ONLY', '')
    if only == 'sweep':
        n = 2
    for k in range(n):
        fl = 'tsan' if k % 2 else 'asan'
        text, meta = gen_scn(ctx, k, fl)
        meta['digest'] = hashlib.sha1(text.encode()).hexdigest()[:12]
        jobs.append((fl, text, meta))
    for fl in ('asan', 'tsan'):
        js = [j for j in jobs if j[0] == fl]
        res = runner.run_many(fl, [(i, j[1]) for i, j in enumerate(js)], timeout=600)
        for j, r in zip(js, res):
            check_wire(ctx, r, j[2])
    if only != 'stress':
        run_sweep(ctx)
    if only in ('', 'borrowed'):
        run_borrowed(ctx)
    ctx.sample({k: v for k, v in jobs[0][2].items()})
    ctx.sample({'scenario_head': jobs[1][1].split('\n')[:12]})
    return ctx.finish(min_eval=10, min_nontrivial=5)
