"""C20 - startup (and every system reset) applies the configuration: features to the right boards before SYS_ENABLE, then track
outputs on, then every configured initial value exactly once - nothing for boards that are not connected.
Oracle: order constraints and multiset equality over the decoded downlink transcript of a start / of bidib_send_sys_reset."""
import hashlib
from collections import Counter

from .. import cfggen, fold, model, runner, statemodel
from ..model import C
from ..scen import Scn, up
from .C07 import cfg_dir
from .C09 import Encoder

def expected(cfg, m):
    feats, go, acc, fn = Counter(), Counter(), Counter(), Counter()
    conn = [b for b in cfg['boards'] if m.connected(b['id'])]
    for b in conn:
        ad = m.addr[b['id']]
        for n, v in b['features'] or []:
            feats[(ad, C('MSG_FEATURE_SET'), bytes([n, v]))] += 1
        if cfggen.is_track_output(b):
            go[(ad, C('MSG_CS_SET_STATE'), bytes([3]))] += 1
    mm = m.clone()
    enc = Encoder(cfg, mm)
    for b in cfg['boards']:
        for kind, isp in (('points_board', True), ('points_dcc', True)):
            for a in b.get(kind) or []:
                if a.get('initial') is not None:
                    ret, msgs, _h = enc.accessory(True, a['id'], a['initial'])
                    for x in msgs:
                        acc[(tuple(x[0]), x[1], x[2])] += 1
    for b in cfg['boards']:
        for kind in ('signals_board', 'signals_dcc'):
            for a in b.get(kind) or []:
                if a.get('initial') is not None:
                    ret, msgs, _h = enc.accessory(False, a['id'], a['initial'])
                    for x in msgs:
                        acc[(tuple(x[0]), x[1], x[2])] += 1
    for b in cfg['boards']:
        for a in b.get('peripherals') or []:
            if a.get('initial') is not None:
                ret, msgs, _h = enc.peripheral(a['id'], a['initial'])
                for x in msgs:
                    acc[(tuple(x[0]), x[1], x[2])] += 1
    tos = [b for b in cfg['boards'] if cfggen.is_track_output(b)]
    for t in cfg['trains']:
        for p in t.get('peripherals') or []:
            if p.get('initial') is None:
                continue
            for to in tos:
                ret, msgs, _h = enc.function(t['id'], p['id'], p['initial'], to['id'])
                for x in msgs:
                    fn[(tuple(x[0]), x[1], x[2])] += 1
                    mm.on_wire(x[0], x[1], x[2])
    return feats, go, acc, fn

def check_transcript(ctx, tx, cfg, m, what, r, meta, lost=None):
    """tx: list of (addr, type, data) in wire order. lost = (announcer, data) of a MSG_NODE_LOST that the interface delivered after the
    track outputs were switched on and before the initial values: features and switch-on as configured, initial values without that board"""
    feats, go, acc, fn = expected(cfg, m)
    if lost is not None:
        m2 = m.clone()
        m2.on_uplink(lost[0], C('MSG_NODE_LOST'), lost[1])
        _f, _g, acc, fn = expected(cfg, m2)
    T = {k: C(k) for k in ('MSG_FEATURE_SET', 'MSG_SYS_ENABLE', 'MSG_CS_SET_STATE', 'MSG_ACCESSORY_SET', 'MSG_CS_ACCESSORY', 'MSG_LC_OUTPUT', 'MSG_CS_DRIVE')}
    idx_enable = [i for i, x in enumerate(tx) if x[1] == T['MSG_SYS_ENABLE']]
    if len(idx_enable) != 1:
        ctx.violation('sys-enable', what, f'{what}: {len(idx_enable)} MSG_SYS_ENABLE on the wire', r.scenario, r.flavour, meta)
        return False
    en = idx_enable[0]
    gf = Counter((x[0], x[1], x[2]) for x in tx if x[1] == T['MSG_FEATURE_SET'])
    if gf != feats:
        miss, extra = list((feats - gf).items())[:2], list((gf - feats).items())[:2]
        cls = 'feature-to-wrong-node' if extra and not miss else 'feature-missing' if miss and not extra else 'feature-mismatch'
        ctx.violation(cls, what, f'{what}: feature settings on the wire differ from the configuration of the connected boards: missing {miss} unexpected {extra}', r.scenario, r.flavour, meta)
        return False
    late = [i for i, x in enumerate(tx) if x[1] == T['MSG_FEATURE_SET'] and i > en]
    if late:
        ctx.violation('feature-after-enable', what, f'{what}: a MSG_FEATURE_SET follows MSG_SYS_ENABLE', r.scenario, r.flavour, meta)
        return False
    ggo = Counter((x[0], x[1], x[2]) for i, x in enumerate(tx) if x[1] == T['MSG_CS_SET_STATE'] and x[2] == bytes([3]))
    if ggo != go:
        ctx.violation('track-output-on', what, f'{what}: CS_SET_STATE(GO) sent to {sorted(ggo)}, connected track outputs are {sorted(go)}', r.scenario, r.flavour, meta)
        return False
    go_idx = [i for i, x in enumerate(tx) if x[1] == T['MSG_CS_SET_STATE'] and x[2] == bytes([3])]
    if go_idx and min(go_idx) < en:
        ctx.violation('go-before-enable', what, f'{what}: a track output is switched on before MSG_SYS_ENABLE', r.scenario, r.flavour, meta)
        return False
    last_go = max(go_idx) if go_idx else en
    gacc = Counter((x[0], x[1], x[2]) for x in tx if x[1] in (T['MSG_ACCESSORY_SET'], T['MSG_CS_ACCESSORY'], T['MSG_LC_OUTPUT']))
    if gacc != acc:
        miss, extra = list((acc - gacc).items())[:2], list((gacc - acc).items())[:2]
        cls = 'initial-missing' if miss and not extra else 'initial-duplicate-or-foreign' if extra and not miss else 'initial-mismatch'
        ctx.violation(cls, what, f'{what}: initial point/signal/peripheral commands differ from the configuration: missing {miss} unexpected {extra}', r.scenario, r.flavour, meta)
        return False
    early = [i for i, x in enumerate(tx) if x[1] in (T['MSG_ACCESSORY_SET'], T['MSG_CS_ACCESSORY'], T['MSG_LC_OUTPUT']) and i < last_go]
    if early:
        ctx.violation('initial-before-go', what, f'{what}: an initial aspect is commanded before the track outputs are switched on', r.scenario, r.flavour, meta)
        return False
    gfn = Counter((x[0], x[1], x[2]) for x in tx if x[1] == T['MSG_CS_DRIVE'] and len(x[2]) >= 4 and (x[2][3] & 0x3E))
    if gfn != fn:
        miss, extra = list((fn - gfn).items())[:2], list((gfn - fn).items())[:2]
        ctx.violation('initial-train-function', what, f'{what}: initial train function commands differ: missing {miss} unexpected {extra}', r.scenario, r.flavour, meta)
        return False
    return bool(feats) or bool(acc) or bool(fn)

def gen_scenario(ctx, k):
    rng = ctx.sub_rng('c20', k)
    cfg = cfggen.gen_config(rng, nboards=rng.randrange(1, 6), with_initial=True)
    if k % 2:
        for b in cfg['boards']:
            if rng.random() < 0.5:
                b['uid'] = bytes([b['uid'][0] | 0x80]) + b['uid'][1:]      # cascaded hubs: boards on the third address level
    slow = rng.random() < 0.3
    if slow:
        # one board with more feature settings than fit its response budget at once (8 x 6 bytes), on a node that needs 50-200 ms per
        # setting and works on one at a time: every answer is in time, the whole list takes up to 6 s - all of it before the system is enabled
        b = rng.choice(cfg['boards'])
        b['features'] = [(n_, rng.randrange(256)) for n_ in rng.sample(range(0, 120), rng.randrange(9, 31))]
    d = cfggen.write_config(cfg, cfg_dir(f'c20_{k}'))
    nodes = cfggen.assign_tree(rng, cfg, absent_prob=0.3 if not slow else 0.1, unknown=rng.randrange(0, 2), unknown_hubs=rng.choice([0, 0, 1, 2]))
    sc = Scn(seed=ctx.seed * 73 + k, watchdog=300000)
    sc.add(*cfggen.bus_lines(cfg, nodes), 'bus brackets 0')
    if slow:
        sc.add(f'bus delay {C("MSG_FEATURE_SET"):02x} {rng.choice([50, 100, 150, 200])}')
    if rng.random() < 0.4:
        sc.add('bus featecho diff')
    # the command station's answer to the switch-on is late / lost, or reports OFF: what is commanded afterwards does not depend on it
    cs_policy = rng.choice(['answer', 'answer', 'never', 'na'])
    if cs_policy != 'answer':
        sc.add(f'bus policy 62 {cs_policy}')
    m0 = statemodel.Model(cfg, nodes)
    settle = []
    if cs_policy == 'never':
        # an unanswered request keeps part of the node's response budget until it expires (C03): commands submitted meanwhile may be held.
        # Time passes and every node says something unrelated, so that whatever was held is transmitted before the transcript is judged
        settle = ['advance 3'] + [up(model.build_msg(m0.addr[b['id']], 0, C('MSG_BM_CURRENT'), bytes([250, 0]))) for b in cfg['boards'] if m0.connected(b['id'])] + ['quiesce', 'flush', 'quiesce']
    lost = None
    if rng.random() < 0.3:
        # a board drops off the bus DURING start-up: the interface reports it when it sees the (first) occupancy address query, i.e. after the
        # track outputs were switched on and half a second before the initial values are commanded. Nothing is commanded for it any more
        def dep(a):
            return 0 if a == (0, 0, 0) else 1 if a[1] == 0 else 2 if a[2] == 0 else 3
        conn = [b for b in cfg['boards'] if m0.connected(b['id']) and m0.addr[b['id']] != (0, 0, 0)]
        leaves = [b for b in conn if not any(o is not b and dep(m0.addr[o['id']]) > dep(m0.addr[b['id']]) and
                                             m0.addr[o['id']][:dep(m0.addr[b['id']])] == m0.addr[b['id']][:dep(m0.addr[b['id']])] for o in conn)]
        withinit = [b for b in leaves if any(a.get('initial') is not None for k_ in ('points_board', 'points_dcc', 'signals_board', 'signals_dcc', 'peripherals') for a in (b.get(k_) or []))
                    or cfggen.is_track_output(b)]
        if leaves:
            L = rng.choice(withinit or leaves)
            a = m0.addr[L['id']]
            parent = tuple(list(a[:dep(a) - 1]) + [0] * (3 - (dep(a) - 1)))
            data = bytes([2, a[dep(a) - 1]]) + L['uid']
            lost = (parent, data)
            sc.add(f'bus inject {C("MSG_BM_ADDR_GET_RANGE"):02x} 1 {model.build_msg(parent, 0, C("MSG_NODE_LOST"), data).hex()}')
    sc.add(f'start {d} 0', 'quiesce', 'flush', 'quiesce', *settle, 'mark after_start')
    with_reset = rng.random() < 0.5 and lost is None
    if with_reset:
        sc.add('reset', 'quiesce', 'flush', 'quiesce', *settle, 'mark after_reset')
    sc.add('stop')
    return sc.text(), cfg, nodes, with_reset, lost

def evaluate(ctx, r, cfg, nodes, with_reset, meta, lost=None):
    if ctx.generic_failures(r, meta):
        return
    if runner.outcome(r) != 'ok':
        return
    begin, ret_i = fold.session_start_index(r.events)
    if ret_i is None or r.events[ret_i].get('r') != 0:
        ctx.violation('start-failed', 'valid-config', 'start did not return 0', r.scenario, r.flavour, meta)
        return
    ctx.evaluations += 1
    m = statemodel.Model(cfg, nodes)
    ev = r.events
    a_start = next(i for i, e in enumerate(ev) if e.get('e') == 'mark' and e.get('m') == 'after_start')
    tx1 = [(tuple(e['addr']), e['type'], bytes.fromhex(e['data'])) for e in ev[begin:a_start] if e.get('e') == 'txm']
    if lost is not None and not any(e.get('e') == 'up' and e.get('injected') for e in ev[begin:a_start]):
        lost = None                      # no board with occupancy detection: the trigger never came
    if lost is not None:
        ctx.count('node_lost_during_startup')
    nt = check_transcript(ctx, tx1, cfg, m, 'start' if lost is None else 'start+node-lost', r, meta, lost)
    if nt is False and ctx.viol:
        pass
    if with_reset:
        c_i = next((i for i, e in enumerate(ev) if e.get('e') == 'call' and e.get('f') == 'bidib_send_sys_reset'), None)
        a_reset = next((i for i, e in enumerate(ev) if e.get('e') == 'mark' and e.get('m') == 'after_reset'), None)
        if c_i is not None and a_reset is not None:
            tx2 = [(tuple(e['addr']), e['type'], bytes.fromhex(e['data'])) for e in ev[c_i:a_reset] if e.get('e') == 'txm']
            check_transcript(ctx, tx2, cfg, m, 'reset', r, meta)
            ctx.count('reset_transcripts')
    ctx.count('start_transcripts')
    if nt:
        ctx.nontrivial.add(meta['digest'])

def run(ctx):
    ctx.rule = ('generated configurations (features and initial values on any subset of boards / accessories / peripherals / train functions) x node trees in which '
                'any subset of the boards is present, feature echo with the requested or a different value, the answer to the track-output switch-on given / lost / reporting OFF; in half of the runs bidib_send_sys_reset is called '
                'afterwards and its transcript checked the same way. non-trivial = distinct scenario whose expectation contains >=1 feature or initial command')
    ctx.assumptions = ['speed-0 / all-zero CS_DRIVE commands and the library\'s own queries are not constrained', 'encoder of C09 for the expected initial commands']
    jobs = [gen_scenario(ctx, k) for k in range(ctx.n(200, 8000))]
    res = runner.run_many('asan', [(i, j[0]) for i, j in enumerate(jobs)], timeout=600)
    for j, r in zip(jobs, res):
        meta = {'digest': hashlib.sha1(j[0].encode()).hexdigest()[:12], 'boards': len(j[1]['boards']), 'reset': j[3]}
        evaluate(ctx, r, j[1], j[2], j[3], meta, j[4] if len(j) > 4 else None)
    ctx.sample({'bus': [l for l in jobs[0][0].split('\n') if l.startswith('bus node')][:5]})
    return ctx.finish(min_eval=50, min_nontrivial=20)
