"""C14 - configurations are accepted iff well-formed and unambiguous; the getters reflect them exactly.
Oracle: the generator emits a config together with its abstract description; valid ones must be accepted and every enumeration
getter / the initial snapshot must equal the description; each single-fault class of the statement, applied at every applicable
position, must make bidib_start_pointer return 1."""
import copy
import hashlib

from .. import cfggen, fold, runner, statemodel
from ..scen import Scn
from .C07 import cfg_dir

def expected_enum(cfg, m):
    e = {}
    conn = [b for b in cfg['boards'] if m.connected(b['id'])]
    e['boards'] = [b['id'] for b in cfg['boards']]
    e['boards_connected'] = [b['id'] for b in conn]

    def ids(b, *kinds):
        return [a['id'] for k in kinds for a in (b.get(k) or [])]
    e['connected_points'] = [i for b in conn for i in ids(b, 'points_board', 'points_dcc')]
    e['connected_signals'] = [i for b in conn for i in ids(b, 'signals_board', 'signals_dcc')]
    e['connected_peripherals'] = [i for b in conn for i in ids(b, 'peripherals')]
    e['connected_segments'] = [i for b in conn for i in ids(b, 'segments')]
    e['connected_reversers'] = [i for b in conn for i in ids(b, 'reversers')]
    e['boosters'] = [b['id'] for b in cfg['boards'] if cfggen.is_booster(b)]
    e['connected_boosters'] = [b['id'] for b in conn if cfggen.is_booster(b)]
    e['track_outputs'] = [b['id'] for b in cfg['boards'] if cfggen.is_track_output(b)]
    e['connected_track_outputs'] = [b['id'] for b in conn if cfggen.is_track_output(b)]
    e['trains'] = [t['id'] for t in cfg['trains']]
    e['trains_on_track'] = []
    for b in cfg['boards']:
        be = {'connected': int(m.connected(b['id'])), 'uid_known': 1, 'uid': b['uid'].hex(),
              'features': [[n, v] for n, v in (b['features'] or [])],
              'points': ids(b, 'points_board', 'points_dcc'), 'signals': ids(b, 'signals_board', 'signals_dcc'),
              'peripherals': ids(b, 'peripherals'), 'segments': ids(b, 'segments'), 'reversers': ids(b, 'reversers'),
              'id_known': 1, 'id_by_uid': b['id'], 'addr_known': int(m.connected(b['id']))}
        if m.connected(b['id']):
            a = m.addr[b['id']]
            be['addr'] = {'top': a[0], 'sub': a[1], 'subsub': a[2]}
            be['uid_by_addr_known'] = 1
            be['uid_by_addr'] = b['uid'].hex()
        e['board:' + b['id']] = be
    for t in cfg['trains']:
        e['train_by_addr:' + t['id']] = t['id']
    return e

def expected_single(cfg):
    s = {}
    for b in cfg['boards']:
        for kind, pfx in (('points_board', 'point'), ('points_dcc', 'point'), ('signals_board', 'signal'), ('signals_dcc', 'signal'), ('peripherals', 'periph')):
            for a in b.get(kind) or []:
                s[f'aspects:{pfx}:{a["id"]}'] = [x[0] for x in a['aspects']]
    for t in cfg['trains']:
        s['tperiphs:' + t['id']] = [p['id'] for p in (t.get('peripherals') or [])]
        s['dccaddr:' + t['id']] = {'known': 1, 'l': t['addr'][1], 'h': t['addr'][0]}
    return s

def cmp_enum(exp, got, diffs, path=''):
    for k, v in exp.items():
        g = got.get(k) if isinstance(got, dict) else None
        if isinstance(v, dict):
            if not isinstance(g, dict):
                diffs.append((path + k, v, g))
            else:
                cmp_enum(v, g, diffs, path + k + '.')
        elif v != g:
            diffs.append((path + k, v, g))

# ------------------------------------------------------------------ single-fault mutations (the classes of the statement)
def all_items(cfg, *kinds):
    return [(b, k, a) for b in cfg['boards'] for k in kinds for a in (b.get(k) or [])]

def faults(cfg, rng):
    """-> list of (class name, position label, mutator(cfg_copy) -> texts or None)"""
    out = []
    B = cfg['boards']

    def m(name, pos, fn):
        out.append((name, pos, fn))

    def partners(x):
        """earlier elements a duplicate at position x may collide with: the direct predecessor, the first element, one in between"""
        js = {x - 1, 0}
        if x >= 3:
            js.add(rng.randrange(1, x - 1))
        return sorted(js)
    for i, b in enumerate(B):
        if len(B) > 1:
            j = (i + 1) % len(B)
            m('dup-board-id', b['id'], lambda c, i=i, j=j: c['boards'][i].__setitem__('id', c['boards'][j]['id']) or 'track-follows')
            m('dup-board-uid', b['id'], lambda c, i=i, j=j: c['boards'][i].__setitem__('uid', c['boards'][j]['uid']))
    for kinds, name in ((('points_board', 'points_dcc'), 'dup-point-id'), (('signals_board', 'signals_dcc'), 'dup-signal-id'), (('peripherals',), 'dup-peripheral-id'),
                        (('segments',), 'dup-segment-id'), (('reversers',), 'dup-reverser-id')):
        items = all_items(cfg, *kinds)
        for x in range(len(items)):
            for y in range(len(items)):
                if x != y and (x + y) % 3 == 0:
                    (b1, k1, a1), (b2, k2, a2) = items[x], items[y]
                    m(name, f'{a1["id"]}={a2["id"]}', lambda c, p=(B.index(b1), k1, b1[k1].index(a1)), q=(B.index(b2), k2, b2[k2].index(a2)):
                      c['boards'][p[0]][p[1]][p[2]].__setitem__('id', c['boards'][q[0]][q[1]][q[2]]['id']))
    for bi, b in enumerate(B):
        for k, field, name in (('points_board', 'number', 'dup-point-number'), ('signals_board', 'number', 'dup-signal-number'), ('peripherals', 'number', 'dup-peripheral-number'),
                               ('peripherals', 'port', 'dup-peripheral-port'), ('segments', 'address', 'dup-segment-address'), ('reversers', 'cv', 'dup-reverser-cv')):
            lst = b.get(k) or []
            for x in range(1, len(lst)):
                for j in partners(x):
                    m(name, f'{b["id"]}/{lst[x]["id"]}~{j}', lambda c, bi=bi, k=k, x=x, j=j, field=field: c['boards'][bi][k][x].__setitem__(field, c['boards'][bi][k][j][field]))
    dccs = all_items(cfg, 'points_dcc', 'signals_dcc')
    for (b, k, a) in dccs:
        for t in cfg['trains'][:2]:
            m('dcc-address-shared-train-accessory', f'{a["id"]}/{t["id"]}', lambda c, p=(B.index(b), k, b[k].index(a)), ti=cfg['trains'].index(t):
              c['trains'][ti].__setitem__('addr', c['boards'][p[0]][p[1]][p[2]]['addr']))
    for x in range(1, len(dccs)):
      for j in partners(x):
        (b1, k1, a1), (b2, k2, a2) = dccs[x], dccs[j]
        if k1 == k2:
            m('dup-dcc-address', f'{a1["id"]}~{j}', lambda c, p=(B.index(b1), k1, b1[k1].index(a1)), q=(B.index(b2), k2, b2[k2].index(a2)):
              c['boards'][p[0]][p[1]][p[2]].__setitem__('addr', c['boards'][q[0]][q[1]][q[2]]['addr']))
    for x in range(1, len(cfg['trains'])):
        for j in partners(x):
            m('dup-train-id', cfg['trains'][x]['id'] + f'~{j}', lambda c, x=x, j=j: c['trains'][x].__setitem__('id', c['trains'][j]['id']))
            m('dup-train-dcc-address', cfg['trains'][x]['id'] + f'~{j}', lambda c, x=x, j=j: c['trains'][x].__setitem__('addr', c['trains'][j]['addr']))
    for (b, k, a) in all_items(cfg, 'points_board', 'signals_board', 'peripherals'):
        p = (B.index(b), k, b[k].index(a))
        if len(a['aspects']) > 1:
            m('dup-aspect-id', a['id'], lambda c, p=p: c['boards'][p[0]][p[1]][p[2]]['aspects'].__setitem__(1, (c['boards'][p[0]][p[1]][p[2]]['aspects'][0][0], c['boards'][p[0]][p[1]][p[2]]['aspects'][1][1])))
            m('dup-aspect-value', a['id'], lambda c, p=p: c['boards'][p[0]][p[1]][p[2]]['aspects'].__setitem__(1, (c['boards'][p[0]][p[1]][p[2]]['aspects'][1][0], c['boards'][p[0]][p[1]][p[2]]['aspects'][0][1])))
        m('initial-not-an-aspect', a['id'], lambda c, p=p: c['boards'][p[0]][p[1]][p[2]].__setitem__('initial', 'no-such-aspect'))
        m('no-aspects', a['id'], lambda c, p=p: c['boards'][p[0]][p[1]][p[2]].__setitem__('aspects', []))
    for (b, k, a) in dccs:
        p = (B.index(b), k, b[k].index(a))
        if len(a['aspects']) > 1:
            # the duplicate may differ from the original in everything but the id: fewer / more ports than the aspect whose id it repeats
            def dup_fewer(c, p=p):
                asp = c['boards'][p[0]][p[1]][p[2]]['aspects']
                asp[1] = (asp[0][0], list(asp[1][1])[:-1] or list(asp[1][1]))
            def dup_more(c, p=p):
                asp = c['boards'][p[0]][p[1]][p[2]]['aspects']
                used = {pp for pp, _v in asp[1][1]}
                asp[1] = (asp[0][0], list(asp[1][1]) + [(next(x for x in range(32) if x not in used), 1)])
            def dup_last_fewer(c, p=p):
                asp = c['boards'][p[0]][p[1]][p[2]]['aspects']
                asp.append((asp[0][0], [(pp, 1 - v) for pp, v in asp[-1][1]][:max(1, len(asp[-1][1]) - 1)]))
            if len(a['aspects'][1][1]) > 1:
                m('dup-aspect-id', a['id'] + '/fewer-ports', dup_fewer)
            m('dup-aspect-id', a['id'] + '/more-ports', dup_more)
            m('dup-aspect-id', a['id'] + '/appended', dup_last_fewer)
            m('dup-aspect-id', a['id'], lambda c, p=p: c['boards'][p[0]][p[1]][p[2]]['aspects'].__setitem__(1, (c['boards'][p[0]][p[1]][p[2]]['aspects'][0][0], c['boards'][p[0]][p[1]][p[2]]['aspects'][1][1])))
            m('dup-aspect-value', a['id'], lambda c, p=p: c['boards'][p[0]][p[1]][p[2]]['aspects'].__setitem__(1, (c['boards'][p[0]][p[1]][p[2]]['aspects'][1][0], c['boards'][p[0]][p[1]][p[2]]['aspects'][0][1])))
        m('initial-not-an-aspect', a['id'], lambda c, p=p: c['boards'][p[0]][p[1]][p[2]].__setitem__('initial', 'no-such-aspect'))
        m('no-aspects', a['id'], lambda c, p=p: c['boards'][p[0]][p[1]][p[2]].__setitem__('aspects', []))
    for ti, t in enumerate(cfg['trains']):
        m('speed-steps', t['id'], lambda c, ti=ti: c['trains'][ti].__setitem__('steps', rng.choice([0, 1, 13, 15, 27, 29, 127, 128, 255])))
        if t.get('calibration') is not None:
            m('calibration-count', t['id'], lambda c, ti=ti: c['trains'][ti].__setitem__('calibration', c['trains'][ti]['calibration'][:rng.choice([0, 1, 8])]))
            m('calibration-count', t['id'] + '+', lambda c, ti=ti: c['trains'][ti].__setitem__('calibration', c['trains'][ti]['calibration'] + [5]))
            m('calibration-value', t['id'], lambda c, ti=ti: c['trains'][ti]['calibration'].__setitem__(rng.randrange(9), rng.choice([127, 128, 255])))
        # 'not being 9 values' also covers a calibration that is no list: one scalar or no value at all, with the train going on to its
        # peripherals or ending right there
        for text in ('100', '', '[]', '[1, 2, 3, 4, 5, 6, 7, 8]'):
            m('calibration-count', t['id'] + f'/scalar({text})', lambda c, ti=ti, text=text: c['trains'][ti].__setitem__('calibration', ('scalar', text)))
            def last(c, ti=ti, text=text):
                c['trains'][ti]['calibration'] = ('scalar', text)
                c['trains'][ti]['peripherals'] = None
            m('calibration-count', t['id'] + f'/scalar({text}),train-ends', last)
        ps = t.get('peripherals') or []
        for pi in range(len(ps)):
            m('function-bit-range', ps[pi]['id'], lambda c, ti=ti, pi=pi: c['trains'][ti]['peripherals'][pi].__setitem__('bit', rng.choice([32, 33, 64, 255])))
            for j in (partners(pi) if pi else []):
                m('dup-function-bit', ps[pi]['id'] + f'~{j}', lambda c, ti=ti, pi=pi, j=j: c['trains'][ti]['peripherals'][pi].__setitem__('bit', c['trains'][ti]['peripherals'][j]['bit']))
                m('dup-function-id', ps[pi]['id'] + f'~{j}', lambda c, ti=ti, pi=pi, j=j: c['trains'][ti]['peripherals'][pi].__setitem__('id', c['trains'][ti]['peripherals'][j]['id']))
    for bi, b in enumerate(B):
        m('track-board-not-in-board-file', b['id'], ('drop-from-board-file', bi))
    return out

NUMERIC_KEYS = ('unique-id', 'number', 'value', 'port', 'dcc-address', 'extended', 'address', 'bit', 'dcc-speed-steps')

def malformed_value_faults(cfg, rng, limit=24):
    """text-level faults: one numeric value of one of the three files gets a character that is not a digit of its notation (at the first, a middle
    or the LAST digit position), or - unique ids - a wrong number of digits. 'A value malformed' must be rejected wherever it stands."""
    import re
    texts = (cfggen.board_yaml(cfg), cfggen.track_yaml(cfg), cfggen.train_yaml(cfg))
    cands = []
    for fi, t in enumerate(texts):
        for li, l in enumerate(t.split('\n')):
            m_ = re.match(r'^(\s*(?:- )?)([a-z-]+): (\S+)\s*$', l)
            if m_ and m_.group(2) in NUMERIC_KEYS:
                cands.append((fi, li, m_.group(1), m_.group(2), m_.group(3)))
            m2 = re.match(r'^(\s*- )(0x[0-9A-Fa-f]+|\d+)\s*$', l)
            if m2:
                cands.append((fi, li, m2.group(1), None, m2.group(2)))            # list entries (calibration)
    rng.shuffle(cands)
    cands.sort(key=lambda c_: c_[3] != 'unique-id')
    out = []
    for (fi, li, pre, key, v) in cands[:limit]:
        digits0 = 2 if v.lower().startswith('0x') else 0
        n = len(v) - digits0
        if n <= 0:
            continue
        where = rng.choice(['first', 'mid', 'last', 'last'])
        pos = digits0 if where == 'first' else len(v) - 1 if where == 'last' else digits0 + n // 2
        bad = v[:pos] + rng.choice('GgxZ') + v[pos + 1:]
        if re.fullmatch(r'0x[0-9A-Fa-f]+|\d+', bad):
            bad = v[:pos] + 'G' + v[pos + 1:]          # '000' -> '0x0' would be a number again (zero-padded decimals exist since the mixed notations)
        variants = [bad]
        if key == 'unique-id':
            variants = [v[:q] + 'G' + v[q + 1:] for q in (2, 9, len(v) - 1)] + [v[:-1], v + '0', v[2:]]
        for b in variants[:2] if key != 'unique-id' else variants:
            out.append(('malformed-value', f'{("board", "track", "train")[fi]}:{key or "list"}:{v}->{b}', ('text', fi, li, pre + (key + ': ' if key else '') + b)))
    # a number far outside the range of its field whose low bits are the legal value it replaces (2^32 + v, 2^64 + v): not that value
    seen_keys = set()
    for (fi, li, pre, key, v) in cands:
        if key in ('unique-id', 'dcc-address') or (fi, key) in seen_keys:
            continue
        seen_keys.add((fi, key))
        try:
            iv = int(v, 16) if v.lower().startswith('0x') else int(v)
        except ValueError:
            continue
        wide = v.lower().startswith('0x') and len(v) > 4          # 0xHHLL: two bytes
        for sh, big in (('wrap32', iv + (1 << 32)), ('wrap64', iv + (1 << 64))) + ((('wrap8', iv + 256),) if not wide else (('wrap16', iv + 65536),)):
            b = hex(big) if v.lower().startswith('0x') else str(big)
            out.append(('malformed-value', f'{("board", "track", "train")[fi]}:{key or "list"}:{v}->{b}/{sh}:{key or "list"}', ('text', fi, li, pre + (key + ': ' if key else '') + b)))
    return out

def apply_fault(cfg, f):
    c = copy.deepcopy(cfg)
    name, pos, fn = f
    if isinstance(fn, tuple) and fn[0] == 'text':
        texts = [cfggen.board_yaml(c), cfggen.track_yaml(c), cfggen.train_yaml(c)]
        ls = texts[fn[1]].split('\n')
        ls[fn[2]] = fn[3]
        texts[fn[1]] = '\n'.join(ls)
        return tuple(texts)
    if isinstance(fn, tuple) and fn[0] == 'drop-from-board-file':
        c2 = copy.deepcopy(c)
        del c2['boards'][fn[1]]
        return (cfggen.board_yaml(c2), cfggen.track_yaml(c), cfggen.train_yaml(c))
    r = fn(c)
    if name == 'dup-board-id':
        # the board file has the duplicate; the track file names each id once
        seen = []
        for b in c['boards']:
            if b['id'] not in seen:
                seen.append(b['id'])
        return (cfggen.board_yaml(c), cfggen.track_yaml(cfg, only_boards=seen), cfggen.train_yaml(c))
    return (cfggen.board_yaml(c), cfggen.track_yaml(c), cfggen.train_yaml(c))

def run(ctx):
    ctx.rule = ('valid: generated configurations (0-4 boards, every section absent/empty/populated, ids (some with printf conversion characters) and values over the legal ranges, DCC addresses over the full 16 bits of the 0x<hhll> format incl. pairs that differ in the top two bits only) with a node tree; '
                'the start result, all enumeration getters and the initial snapshot are compared with the abstract description. faults: each single-fault '
                'class of the statement applied at (up to 10 per class and base) applicable positions must give return value 1. non-trivial = distinct '
                '(fault class, position) rejected, plus distinct valid configurations with >=1 board')
    ctx.assumptions = ['documented layout = key order and optional parts of example/config and the two test configs', 'cross-kind collisions (point vs. signal numbers/ids) are not generated']
    jobs = []
    nvalid = ctx.n(150, 6000)
    for k in range(nvalid):
        rng = ctx.sub_rng('c14v', k)
        cfg = cfggen.gen_config(rng, wide_dcc=(k % 3 == 1), odd_ids=(k % 5 == 2))
        d = cfggen.write_config(cfg, cfg_dir(f'c14v_{k}'))
        nodes = cfggen.assign_tree(rng, cfg, absent_prob=0.2)
        sc = Scn(seed=ctx.seed * 61 + k, watchdog=240000)
        sc.add(*cfggen.bus_lines(cfg, nodes), 'bus brackets 1', 'logerr 1', f'start {d} 0', 'quiesce', 'mark started', 'snap s0', 'stop')
        jobs.append(('valid', sc.text(), cfg, nodes, None))
    nbases = ctx.n(12, 400)
    for k in range(nbases):
        rng = ctx.sub_rng('c14f', k)
        cfg = cfggen.gen_config(rng, nboards=rng.randrange(2, 5), wide_dcc=(k % 2 == 1), odd_ids=(k % 4 == 3))
        fs = faults(cfg, rng) + malformed_value_faults(cfg, rng)
        bycls = {}
        for f in fs:
            bycls.setdefault(f[0], []).append(f)
        for cls, lst in sorted(bycls.items()):
            rng.shuffle(lst)
            # stratified: one candidate of every variant shape of the class first ('<id>/fewer-ports', '<id>/scalar(100),train-ends', '<id>+', ...),
            # then the rest up to the per-class limit
            shape = lambda f: (str(f[1]).split('/', 1)[1] if '/' in str(f[1]) else ('+' if str(f[1]).endswith('+') else ('~' if '~' in str(f[1]) else '')))
            seen_shapes, first, rest = set(), [], []
            for f in lst:
                (rest if shape(f) in seen_shapes else first).append(f)
                seen_shapes.add(shape(f))
            lim = (10 if not ctx.quick else 4) if cls != 'malformed-value' else 40
            for f in first + rest[:max(0, lim - len(first))]:
                texts = apply_fault(cfg, f)
                d = cfggen.write_config(cfg, cfg_dir(f'c14f_{k}_{len(jobs)}'), texts)
                sc = Scn(seed=ctx.seed * 67 + k, watchdog=240000)
                sc.add('bus mode answer', 'bus node 0.0.0 80000d99000001', 'logerr 1', f'start {d} 0', 'mark started')
                jobs.append(('fault', sc.text(), cfg, None, (cls, f[1])))
    res = runner.run_many('asan', [(i, j[1]) for i, j in enumerate(jobs)], timeout=600)
    for j, r in zip(jobs, res):
        kind, text, cfg, nodes, finfo = j
        meta = {'kind': kind, 'fault': finfo, 'digest': hashlib.sha1(text.encode()).hexdigest()[:12]}
        ret = next((e.get('r') for e in r.events if e.get('e') == 'ret' and e.get('f') == 'bidib_start_pointer'), None)
        if kind == 'fault':
            ctx.evaluations += 1
            ctx.count('fault_cases')
            if ret == 0:
                ctx.violation('accepted-ambiguous', finfo[0], f'configuration with fault {finfo[0]} at {finfo[1]} was accepted (start returned 0)', text, 'asan', meta)
                continue
            if ctx.generic_failures(r, meta):
                continue
            if ret == 1:
                ctx.nontrivial.add(finfo)
                ctx.add_set('fault_classes_rejected', finfo[0])
            continue
        if ctx.generic_failures(r, meta):
            continue
        if runner.outcome(r) != 'ok':
            continue
        ctx.evaluations += 1
        ctx.count('valid_cases')
        if ret != 0:
            errs = [e['line'] for e in r.events if e.get('e') == 'logerr'][:2]
            ctx.violation('rejected-valid', 'config', f'a configuration following the documented layout was rejected: {errs}', text, 'asan', meta)
            continue
        snap = next((e for e in r.events if e.get('e') == 'snap'), None)
        if not snap:
            ctx.inconclusive.append('no snapshot')
            continue
        begin, ret_i = fold.session_start_index(r.events)
        m = statemodel.Model(cfg, nodes)
        diffs = []
        sd = []

        def on_snap(mm, e, diffs=diffs, sd=sd, cfg=cfg):
            cmp_enum(expected_enum(cfg, mm), e['enum'], diffs)
            cmp_enum(expected_single(cfg), e['single'], diffs)
            sd.extend(statemodel.compare_state(mm, e['state']))
        fold.fold(m, r.events, begin, None, on_snap)
        if diffs:
            key = diffs[0][0].split(':')[0].split('.')[-1] if ':' in diffs[0][0] else diffs[0][0]
            ctx.violation('getter-mismatch', key, f'{diffs[0][0]}: getter says {diffs[0][2]}, configuration declares {diffs[0][1]} ({len(diffs)} differences)', text, 'asan', meta)
            continue
        if sd:
            path = sd[0][0]
            field = '.'.join(p for p in path.split('.') if not any(ch.isdigit() for ch in p))
            ctx.violation('initial-state', field, f'{sd[0][0]} is {sd[0][2]}, expected {sd[0][1]} right after startup', text, 'asan', meta)
            continue
        if cfg['boards']:
            ctx.nontrivial.add(('valid', meta['digest']))
    ctx.sample({'valid_config_board_file': cfggen.board_yaml(jobs[0][2]).split('\n')[:8]})
    fj = next((j for j in jobs if j[0] == 'fault'), None)
    if fj:
        ctx.sample({'fault': fj[4]})
    return ctx.finish(min_eval=100, min_nontrivial=40)
