"""C11 - no call blocks forever: locks are balanced on every path (incl. error returns) and nested in one global order.
Oracle: link-time lock monitor. (a) balance: the calling thread's held-set is empty at the return of every public call, and the
receiver holds nothing whenever it is back at the read callback; (b) order: the union over all runs of the lock-order graph observed
while the library is running is acyclic (recursive read acquisition is not an edge); (c) definite deadlock: self-wait or wait-for
cycle, watchdog; (d) every call returns. Workload: systematic cross product public function x argument class x mode, every uplink
type on the receiver thread, accepted and rejected configurations; plus concurrent stress for (c) and more edges."""
import hashlib
import json
import os

from .. import batch, cfggen, gen, model, runner, spec_lowlevel as S, statemodel, uplink
from ..model import C
from ..scen import Scn, call, up, s as S_
from .C07 import cfg_dir, gen_feedback, gen_command, field_sweep
from .C14 import faults, apply_fault

def api_functions():
    p = os.path.join(runner.build.ensure('asan')[1], 'api.json')
    return json.load(open(p))

def cross_product(rng, cfg, m, debug):
    """scenario lines: every public function with argument classes valid / unknown id / disconnected board / invalid value / NULL"""
    ls = []
    UNK = 'no-such-id'
    conn = [b for b in cfg['boards'] if m.connected(b['id'])]
    disc = [b for b in cfg['boards'] if not m.connected(b['id'])]
    addr_of = lambda b: m.addr[b['id']]
    # low-level: one accepted and (where the spec has one) one rejected call per function, at a connected board's and an unknown address
    for name, r in sorted(S.rows().items()):
        if r['data'] is None:
            a = {'type': 0, 'll': 1, 'lh': 2}
            ls.append(call(name, *S.tokens(name, (1, 0, 0), a)))
            continue
        for ad in ([addr_of(rng.choice(conn))] if conn else []) + [(201, 0, 0)]:
            nm, ad2, a, data = gen.random_call(rng, ad, names=[name], hot=0.3, long_bias=0.1)
            ls.append(call(nm, *S.tokens(nm, ad2, a)))
        # an argument the spec rejects
        for _ in range(40):
            a2 = {an: gen.rbyte(rng) for an in r['args'] if not an.startswith('B:')}
            gen.fill_buffers(name, a2, rng) if all(k in a2 for k in ('nlen', 'vlen', 'size', 'n') if ('B:' + {'nlen': 'name', 'vlen': 'value', 'size': 'data', 'n': 'pairs'}[k]) in r['args']) else None
            try:
                st, _d = S.expected(name, (1, 0, 0), a2)
            except Exception:
                continue
            if st == 'reject' and all(an[2:] in a2 for an in r['args'] if an.startswith('B:')):
                ls.append(call(name, *S.tokens(name, (1, 0, 0), a2)))
                break
    if debug:
        return ls
    # high-level: ids of every kind x {valid, unknown aspect, unknown id, NULL}, boards connected and disconnected
    for b in cfg['boards']:
        for kind, fn in (('points_board', 'bidib_switch_point'), ('points_dcc', 'bidib_switch_point'), ('signals_board', 'bidib_set_signal'), ('signals_dcc', 'bidib_set_signal'),
                         ('peripherals', 'bidib_set_peripheral')):
            for a in (b.get(kind) or [])[:2]:
                ls += [call(fn, S_(a['id']), S_(a['aspects'][0][0])), call(fn, S_(a['id']), S_(UNK)), call(fn, S_(a['id']), '@null')]
        for r_ in (b.get('reversers') or [])[:1]:
            ls += [call('bidib_request_reverser_state', S_(r_['id']), S_(b['id'])), call('bidib_request_reverser_state', S_(r_['id']), S_(UNK)), call('bidib_request_reverser_state', '@null', '@null')]
        ls += [call('bidib_ping', S_(b['id']), 7), call('bidib_identify', S_(b['id']), 1), call('bidib_identify', S_(b['id']), 9), call('bidib_get_protocol_version', S_(b['id'])),
               call('bidib_get_software_version', S_(b['id'])), call('bidib_set_booster_power_state', S_(b['id']), 1), call('bidib_set_track_output_state', S_(b['id']), 3)]
    for fn in ('bidib_switch_point', 'bidib_set_signal', 'bidib_set_peripheral'):
        ls += [call(fn, S_(UNK), S_(UNK)), call(fn, '@null', S_(UNK)), call(fn, '@null', '@null')]
    for fn in ('bidib_ping', 'bidib_identify'):
        ls += [call(fn, S_(UNK), 1), call(fn, '@null', 1)]
    for fn in ('bidib_get_protocol_version', 'bidib_get_software_version'):
        ls += [call(fn, S_(UNK)), call(fn, '@null')]
    ls += [call('bidib_set_booster_power_state', S_(UNK), 0), call('bidib_set_booster_power_state', '@null', 0), call('bidib_set_track_output_state', S_(UNK), 0),
           call('bidib_set_track_output_state', '@null', 0), call('bidib_set_track_output_state_all', 3)]
    tos = [b['id'] for b in cfg['boards'] if cfggen.is_track_output(b)]
    to_classes = ([rng.choice(tos)] if tos else []) + [UNK, None] + [b['id'] for b in cfg['boards'] if not cfggen.is_track_output(b)][:1]
    for t in cfg['trains'][:3] + [None, {'id': UNK, 'peripherals': []}]:
        tid = S_(t['id']) if t else '@null'
        for to in to_classes:
            tok = S_(to) if to else '@null'
            ls += [call('bidib_set_train_speed', tid, 5, tok), call('bidib_set_train_speed', tid, 200, tok), call('bidib_set_calibrated_train_speed', tid, 3, tok),
                   call('bidib_set_calibrated_train_speed', tid, 30, tok), call('bidib_emergency_stop_train', tid, tok)]
            ps = (t or {}).get('peripherals') or []
            pid = S_(ps[0]['id']) if ps else S_(UNK)
            ls += [call('bidib_set_train_peripheral', tid, pid, 1, tok), call('bidib_set_train_peripheral', tid, S_(UNK), 1, tok), call('bidib_set_train_peripheral', tid, '@null', 1, tok),
                   call('bidib_set_train_peripheral', tid, pid, 7, tok)]
    # getters: every getter for every id, an unknown id and NULL (snap), flush and both read functions
    ls += ['snap g', 'flush', 'drain intern']
    return ls

def gen_scenario(ctx, k):
    rng = ctx.sub_rng('c11', k)
    debug = (k % 4 == 3)
    cfg = cfggen.gen_config(rng, nboards=rng.randrange(2, 5), with_initial=True)
    nodes = cfggen.assign_tree(rng, cfg, absent_prob=0.3)
    m = statemodel.Model(cfg, nodes)
    sc = Scn(seed=ctx.seed * 103 + k, watchdog=300000)
    if debug:
        sc.add('bus mode answer', 'bus node 0.0.0 80000d99000001', 'bus node 1.0.0 00000d99000002', 'bus node 201.0.0 00000d99000003', 'bus brackets 0', 'debug 1', 'start @null 0')
    else:
        d = cfggen.write_config(cfg, cfg_dir(f'c11_{k}'))
        sc.add(*cfggen.bus_lines(cfg, nodes), 'bus node 201.0.0 00000d99000003', 'bus node 1.0.0 00000d99000002' if not any(a == (1, 0, 0) for a, _ in nodes) else 'bus brackets 0',
               'bus brackets 0')
        # spontaneous traffic of every kind while the start-up dialogue is under way (node table being read, features being set, system being
        # enabled): the receiver handles it with the locks it always takes, the starting thread must not be holding them while it waits
        for j in range(rng.randrange(2, 9)):
            trig = C(rng.choice(['MSG_NODETAB_GETNEXT', 'MSG_NODETAB_GETNEXT', 'MSG_NODETAB_GETALL', 'MSG_FEATURE_SET', 'MSG_SYS_ENABLE', 'MSG_GET_PKT_CAPACITY', 'MSG_CS_SET_STATE']))
            leafs = [b for b in cfg['boards'] if m.connected(b['id']) and m.addr[b['id']] != (0, 0, 0) and m.addr[b['id']][1] == 0 and not cfggen.is_interface(b)]
            if leafs and rng.random() < 0.3:
                # a node notice (the receiver needs the boards WRITE lock for it) while the starting thread waits for answers
                L_ = rng.choice(leafs)
                ad_, t_, data_ = (0, 0, 0), C(rng.choice(['MSG_NODE_LOST', 'MSG_NODE_NEW'])), bytes([2 + j, m.addr[L_['id']][0]]) + L_['uid']
            elif rng.random() < 0.6:
                ad_, t_, data_ = gen_feedback(rng, m, cfg, nodes)
            else:
                n_ = rng.choice(['MSG_SYS_ERROR', 'MSG_BOOST_STAT', 'MSG_NODE_NA', 'MSG_LC_NA', 'MSG_VENDOR', 'MSG_BM_CURRENT', 'MSG_ACCESSORY_STATE'])
                ad_, t_, data_ = (0, 0, 0), C(n_), uplink.payload(rng, n_)
            sc.add(f'bus inject {trig:02x} {rng.randrange(1, 5)} {model.build_msg(ad_, 0, t_, data_).hex()}')
        sc.add(f'start {d} {rng.choice([0, 2])}', 'quiesce')
    lines = cross_product(rng, cfg, m, debug)
    ncalls = 0
    for l in lines:
        sc.add(l)
        ncalls += l.startswith('call')
        if rng.random() < 0.2:
            sc.add('flush', 'quiesce')
    sc.add('flush', 'quiesce')
    # every uplink message type on the receiver thread, from a connected board and from an unknown node
    names = {model.C(n): n for n in uplink.KNOWN_UP}
    conn = [b for b in cfg['boards'] if m.connected(b['id'])]
    for t in range(256):
        n = names.get(t)
        for v in (['ok', 'error'] if n in uplink.HAS_ERROR_VARIANT else [None]):
            data = b'\x00' if t == C('MSG_STALL') else uplink.payload(rng, n, v) if n else bytes(rng.randrange(256) for _ in range(rng.randrange(0, 6)))
            ad = m.addr[rng.choice(conn)['id']] if conn and not debug and rng.random() < 0.7 else (250, 0, 0)
            if n in ('MSG_NODE_LOST', 'MSG_NODE_NEW'):
                continue
            sc.add(up(model.build_msg(ad, 0, t, data)))
        if t % 16 == 15:
            sc.add('quiesce', 'drain intern')
    # both user queues driven over their bound (128) with nobody reading: the overflow path runs on the receiver thread
    for i in range(140):
        sc.add(up(model.build_msg((250, 0, 0), 0, C('MSG_SYS_PONG'), bytes([i]))))
    sc.add('quiesce')
    for i in range(140):
        sc.add(up(model.build_msg((250, 0, 0), 0, C('MSG_SYS_ERROR'), bytes([0x20, i]))))
    sc.add('quiesce', 'readm', 'reade', 'drain intern')
    if not debug:
        for i in range(30):
            ad, t, data = gen_feedback(rng, m, cfg, nodes)
            sc.add(up(model.build_msg(ad, 0, t, data)))
        sc.add('quiesce', 'reset', 'quiesce')
    sc.add('quiesce', 'snap e', 'stop')
    return sc.text(), {'mode': 'debug' if debug else 'normal', 'calls': ncalls}

def gen_fieldsweep(ctx, k):
    """receiver-thread paths for out-of-range field values in feedback about configured equipment (every value 0..255 of one data byte
    per template): the receiver must be back at the read callback holding nothing after each of them"""
    rng = ctx.sub_rng('c11w', k)
    cfg = cfggen.gen_config(rng, nboards=rng.randrange(1, 4), with_initial=False)
    nodes = cfggen.assign_tree(rng, cfg, absent_prob=0.0)
    m = statemodel.Model(cfg, nodes)
    d = cfggen.write_config(cfg, cfg_dir(f'c11w_{k}'))
    sc = Scn(seed=ctx.seed * 111 + k, watchdog=240000)
    sc.add(*cfggen.bus_lines(cfg, nodes), 'bus brackets 0', f'start {d} 0', 'quiesce')
    n = 0
    for ad, t, data in field_sweep(rng, m, cfg, nodes, ntemplates=10):
        sc.add(up(model.build_msg(ad, 0, t, data)))
        n += 1
        if n % 64 == 0:
            sc.add('quiesce', 'get state x')
    sc.add('quiesce', 'snap e', 'drain', 'stop')
    return sc.text(), {'mode': 'fieldsweep', 'calls': 0, 'messages': n}

def gen_fault_scenario(ctx, k):
    rng = ctx.sub_rng('c11f', k)
    cfg = cfggen.gen_config(rng, nboards=rng.randrange(2, 5))
    fs = faults(cfg, rng)
    f = rng.choice(fs)
    d = cfggen.write_config(cfg, cfg_dir(f'c11f_{k}'), apply_fault(cfg, f))
    sc = Scn(seed=ctx.seed * 107 + k, watchdog=120000)
    sc.add('bus mode answer', 'bus node 0.0.0 80000d99000001', f'start {d} 0', 'stop', f'start {d} 2', 'stop')
    return sc.text(), {'mode': 'rejected-config', 'fault': f[0], 'calls': 2}

def gen_stress(ctx, k):
    rng = ctx.sub_rng('c11s', k)
    cfg = cfggen.gen_config(rng, nboards=rng.randrange(1, 4), with_initial=False)
    if not cfg['trains']:
        cfg['trains'].append({'id': 'xt', 'addr': cfggen.free_dcc(cfg, (0x3D, 0x11)), 'steps': 28, 'calibration': None, 'peripherals': [{'id': 'xf0', 'bit': 0, 'initial': None}, {'id': 'xf1', 'bit': 1, 'initial': None}]})
    nodes = cfggen.assign_tree(rng, cfg, absent_prob=0.0)
    m = statemodel.Model(cfg, nodes)
    d = cfggen.write_config(cfg, cfg_dir(f'c11s_{k}'))
    sc = Scn(seed=ctx.seed * 109 + k, perturb=rng.choice([100, 300, 600]), watchdog=120000)
    sc.add(*cfggen.bus_lines(cfg, nodes), 'bus brackets 0', f'start {d} {rng.choice([0, 1])}', 'quiesce')
    nt = rng.choice([3, 4, 8])
    sc.add(f'par {nt}')
    for i in range(rng.randrange(40, 150)):
        ad, t, data = gen_feedback(rng, m, cfg, nodes)
        sc.add('t 0 ' + up(model.build_msg(ad, 0, t, data)))
    segs = [s_['id'] for b in cfg['boards'] for s_ in (b.get('segments') or [])]
    for t in range(1, nt):
        for i in range(rng.randrange(40, 120)):
            r_ = rng.random()
            if r_ < 0.35:
                line, _h = gen_command(rng, m, cfg)
                if line:
                    sc.add(f't {t} ' + line)
            elif r_ < 0.6:
                sc.add(f't {t} get train {rng.choice(cfg["trains"])["id"]}')
            elif r_ < 0.7 and segs:
                sc.add(f't {t} get segment {rng.choice(segs)}')
            elif r_ < 0.8:
                sc.add(f't {t} get state x')
            elif r_ < 0.9:
                sc.add(f't {t} flush')
            else:
                sc.add(f't {t} readm')
    sc.add('endpar', 'quiesce', 'stop')
    return sc.text(), {'mode': 'stress', 'threads': nt, 'calls': 0}

def gen_stoprace(ctx, k):
    """bidib_stop against a library thread parked at its k-th scheduling point (directed preemption): the auto-flush thread in front of / inside
    its flush, the receiver inside the processing of a packet. bidib_stop runs up to the join (or up to a lock the parked thread holds), the
    parked thread then finishes: it has to leave holding nothing, and the next session has to work."""
    rng = ctx.sub_rng('c11r', k)
    cfg = cfggen.gen_config(rng, nboards=rng.randrange(1, 4), with_initial=False)
    if not any(cfggen.is_track_output(b) for b in cfg['boards']):
        cfg['boards'][0]['uid'] = bytes([cfg['boards'][0]['uid'][0] | 0x10]) + cfg['boards'][0]['uid'][1:]
    nodes = cfggen.assign_tree(rng, cfg, absent_prob=0.0)
    m = statemodel.Model(cfg, nodes)
    d = cfggen.write_config(cfg, cfg_dir(f'c11r_{k}'))
    target = 'af' if k % 3 != 2 else 'recv'
    point = 1 + (k // 3) % 12
    sc = Scn(seed=ctx.seed * 113 + k, watchdog=120000)
    sc.add(*cfggen.bus_lines(cfg, nodes), 'bus brackets 0', f'start {d} {rng.choice([1, 2, 5, 50])}', 'quiesce')
    for i in range(rng.randrange(0, 4)):
        line, _h = gen_command(rng, m, cfg)
        if line:
            sc.add(line)
    sc.add(f'mark c0', f'pause {target} {point}' + (' fn' if k % 2 and target == 'recv' else ''))
    if target == 'recv':
        for i in range(rng.randrange(1, 4)):
            ad, t, data = gen_feedback(rng, m, cfg, nodes)
            sc.add(up(model.build_msg(ad, 0, t, data)))
    sc.add('waitpaused 2000', 'stop', 'release')
    sc.add(f'start {d} 0', 'quiesce')
    line, _h = gen_command(rng, m, cfg)
    if line:
        sc.add(line)
    sc.add('flush', 'quiesce', 'stop')
    return sc.text(), {'mode': 'stoprace', 'target': target, 'point': point, 'calls': 0}

def find_cycle(edges):
    """edges: set of (a, b). returns a cycle as list or None"""
    adj = {}
    for a, b in edges:
        adj.setdefault(a, set()).add(b)
    color = {}
    stack = []

    def dfs(u):
        color[u] = 1
        stack.append(u)
        for v in adj.get(u, ()):
            if color.get(v) == 1:
                return stack[stack.index(v):] + [v]
            if v not in color:
                c = dfs(v)
                if c:
                    return c
        stack.pop()
        color[u] = 2
        return None
    for u in list(adj):
        if u not in color:
            c = dfs(u)
            if c:
                return c
    return None

def run(ctx):
    ctx.rule = ('cross product: every public bidib_send_* (accepted and spec-rejected arguments), every high-level setter/admin call x {valid, unknown aspect, unknown id, disconnected '
                'board, out-of-range value, NULL}, every getter for known/unknown/NULL ids, flush, both read functions, bidib_send_sys_reset, all 256 uplink type codes (error and '
                'non-error variants) on the receiver thread, field sweeps (every value 0..255 of one data byte of valid feedback about configured equipment), both user queues driven over their bound, in normal and debug mode; starts with every rejected-configuration class; concurrent stress with lock-level '
                'perturbation. non-trivial = distinct scenario in which nested lock acquisitions were observed while the library was running')
    ctx.assumptions = ['acyclicity of the OBSERVED nesting order over all runs (edges recorded while the library is running or on library threads)', 'glibc rwlocks are reader-preferring: '
                       'recursive read acquisition is recorded but is not an edge', 'paths that need allocation failure are not driven']
    jobs = []
    for k in range(ctx.n(12, 400)):
        jobs.append(('asan',) + gen_scenario(ctx, k))
    for k in range(ctx.n(40, 1500)):
        jobs.append(('asan',) + gen_fault_scenario(ctx, k))
    for k in range(ctx.n(24, 1000)):
        jobs.append(('mon' if k % 2 else 'asan',) + gen_fieldsweep(ctx, k))
    for k in range(ctx.n(30, 1500)):
        jobs.append(('mon' if k % 2 else 'asan',) + gen_stress(ctx, k))
    for k in range(ctx.n(48, 1200)):
        jobs.append(('mon' if k % 4 == 3 else 'asan',) + gen_stoprace(ctx, k))
    # flow-control histories of C04 (nested stalls, backlogs larger than the budget, silent time, un-stall in any order): the receiver does the
    # releasing under the node-table mutex - it has to come back from every notice (no call may wait for that mutex forever)
    from . import C04
    for k in range(ctx.n(24, 600)):
        out = C04.gen_seq(ctx, 200000 + k)
        jobs.append(('mon' if k % 2 else 'asan', out[0], {'mode': 'flow-control', 'calls': 0}))
    union = {}
    union_all = {}
    calls = 0
    for fl in ('asan', 'mon'):
        js = [j for j in jobs if j[0] == fl]
        res = runner.run_many(fl, [(i, j[1]) for i, j in enumerate(js)], timeout=900)
        for j, r in zip(js, res):
            meta = dict(j[2])
            meta['digest'] = hashlib.sha1(j[1].encode()).hexdigest()[:12]
            ctx.evaluations += 1
            ctx.count('runs_' + meta['mode'])
            if ctx.generic_failures(r, meta):
                continue
            oc = runner.outcome(r)
            if oc != 'ok':
                continue
            if meta['mode'] == 'stoprace':
                for e in r.events:
                    if e.get('e') == 'paused':
                        ctx.add_set('stoprace_pause_sites', (meta['target'], e.get('kind'), e.get('at'), e.get('held')))
                    elif e.get('e') == 'resumed':
                        ctx.count('stoprace_resumed_' + e.get('why', '?'))
            calls += sum(1 for e in r.events if e.get('e') == 'ret')
            ctx.count('fieldsweep_messages', meta.get('messages', 0))
            ed = next((e for e in r.events if e.get('e') == 'edges'), None)
            if not ed:
                ctx.inconclusive.append('no lock-order record')
                continue
            got = False
            for e in ed['edges']:
                a, b, cnt, wit = e[0], e[1], e[2], e[3]
                runc = e[4] if len(e) > 4 else cnt
                union_all.setdefault((a, b), wit)
                if runc:
                    got = True
                    if (a, b) not in union:
                        union[(a, b)] = (wit, j[1], meta)
            ctx.count('lock_operations', ed.get('lock_ops', 0))
            ctx.count('recursive_read_acquisitions', ed.get('rec_rd', 0))
            if got:
                ctx.nontrivial.add(meta['digest'])
    cyc = find_cycle(set(union))
    ctx.cov['lock_order_edges_while_running'] = len(union)
    ctx.cov['lock_order_edges_total'] = len(union_all)
    ctx.cov['public_calls_returned_balanced'] = calls
    ctx.cov['edges'] = sorted(f'{a} -> {b} ({union[(a, b)][0]})' for (a, b) in union)
    if cyc:
        pairs = list(zip(cyc, cyc[1:]))
        wit = '; '.join(f'{a}->{b} in {union[(a, b)][0]}' for a, b in pairs)
        scen = union[pairs[-1]][1]
        ctx.violation('lock-order-cycle', '+'.join(sorted(set(cyc))), f'the nesting order observed over all runs has a cycle: {" -> ".join(cyc)} ({wit})', scen, 'asan', {'cycle': cyc})
    ctx.sample({'edges_sample': ctx.cov['edges'][:8]})
    return ctx.finish(min_eval=20, min_nontrivial=5)
