"""C09 - high-level commands emit exactly the configured messages, or nothing (return 1).
Oracle: model encoder from the abstract configuration and the model's node addresses / train state; per command the return value,
the decoded wire up to the next quiescent point, and (sampled) full getter snapshots against the reference fold."""
import hashlib

from .. import batch, cfggen, fold, model, runner, statemodel
from ..model import C
from ..scen import Scn, call, up, s as S_
from .C07 import cfg_dir

FMT = {14: 0, 28: 2, 126: 3}

def group_of(bit):
    return 1 if bit < 5 else 2 if 8 <= bit < 12 else 3 if 12 <= bit < 16 else 4 if 16 <= bit < 24 else 5 if bit >= 24 else None

GROUP_BITS = {1: range(0, 5), 2: range(8, 12), 3: range(12, 16), 4: range(16, 24), 5: range(24, 32)}

class Encoder:
    def __init__(self, cfg, m):
        self.cfg, self.m = cfg, m
        self.acc = {}
        for b in cfg['boards']:
            for kind in ('points_board', 'points_dcc', 'signals_board', 'signals_dcc', 'peripherals'):
                for a in b.get(kind) or []:
                    self.acc[(kind, a['id'])] = (b, a)
        self.trains = {t['id']: t for t in cfg['trains']}

    def find(self, kinds, id_):
        for k in kinds:
            if (k, id_) in self.acc:
                return k, self.acc[(k, id_)]
        return None, None

    def to_addr(self, to_id):
        b = self.m.boards.get(to_id) if to_id is not None else None
        if b is None or not self.m.connected(b['id']) or not cfggen.is_track_output(b):
            return None
        return self.m.addr[b['id']]

    def accessory(self, is_point, id_, aspect):
        """-> (ret, [(addr, type, data)], hook)"""
        if id_ is None or aspect is None:
            return 1, [], None
        kinds = ('points_board', 'points_dcc') if is_point else ('signals_board', 'signals_dcc')
        k, ba = self.find(kinds, id_)
        if not k:
            return 1, [], None
        b, a = ba
        if not self.m.connected(b['id']):
            return 1, [], None
        addr = self.m.addr[b['id']]
        if k.endswith('_board'):
            v = next((v for aid, v in a['aspects'] if aid == aspect), None)
            if v is None:
                return 1, [], None
            return 0, [(addr, C('MSG_ACCESSORY_SET'), bytes([a['number'], v]))], None
        pv = next((pv for aid, pv in a['aspects'] if aid == aspect), None)
        if pv is None:
            return 1, [], None
        msgs = [(addr, C('MSG_CS_ACCESSORY'), bytes([a['addr'][1], a['addr'][0], (p & 0x1F) | (v << 5) | (a['extended'] << 7), 0])) for (p, v) in pv]
        return 0, msgs, (lambda mm, i=id_, x=aspect: mm.set_dcc_state_id(i, x))

    def peripheral(self, id_, aspect):
        if id_ is None or aspect is None:
            return 1, [], None
        k, ba = self.find(('peripherals',), id_)
        if not k:
            return 1, [], None
        b, a = ba
        if not self.m.connected(b['id']):
            return 1, [], None
        v = next((v for aid, v in a['aspects'] if aid == aspect), None)
        if v is None:
            return 1, [], None
        return 0, [(self.m.addr[b['id']], C('MSG_LC_OUTPUT'), bytes([a['port'][1], a['port'][0], v]))], None

    def drive(self, t, to_addr, active, speed, f=(0, 0, 0, 0)):
        return (to_addr, C('MSG_CS_DRIVE'), bytes([t['addr'][1], t['addr'][0], FMT[t['steps']], active, speed, f[0], f[1], f[2], f[3]]))

    def speed(self, train, speed, to):
        t = self.trains.get(train) if train is not None else None
        ad = self.to_addr(to)
        if t is None or ad is None or speed < -126 or speed > 126:
            return 1, [], None
        fw = (speed > 0) if speed != 0 else bool(self.m.st['trains'][t['id']]['forwards'])
        return 0, [self.drive(t, ad, 0x01, statemodel.speed_to_dcc(abs(speed), fw))], None

    def calibrated(self, train, k, to):
        t = self.trains.get(train) if train is not None else None
        if t is None or to is None or k < -9 or k > 9 or t.get('calibration') is None:
            return 1, [], None
        sp = 0 if k == 0 else t['calibration'][abs(k) - 1] * (1 if k > 0 else -1)
        return self.speed(train, sp, to)

    def estop(self, train, to):
        t = self.trains.get(train) if train is not None else None
        ad = self.to_addr(to)
        if t is None or ad is None:
            return 1, [], None
        return 0, [self.drive(t, ad, 0x01, 0x81)], None

    def function(self, train, pid, state, to):
        t = self.trains.get(train) if train is not None else None
        ad = self.to_addr(to)
        if t is None or ad is None or pid is None or state > 1:
            return 1, [], None
        p = next((p for p in (t.get('peripherals') or []) if p['id'] == pid), None)
        if p is None:
            return 1, [], None
        g = group_of(p['bit'])
        f = [0, 0, 0, 0]
        cur = self.m.st['trains'][t['id']]['periphs']
        for q in t['peripherals']:
            if q['bit'] in GROUP_BITS[g]:
                v = state if q['id'] == pid else cur[q['id']]
                f[q['bit'] // 8] |= v << (q['bit'] % 8)
        return 0, [self.drive(t, ad, 1 << g, 0x00, f)], None

    def board_cmd(self, kind, board, arg=None):
        b = self.m.boards.get(board) if board is not None else None
        if b is None or not self.m.connected(b['id']):
            return 1, [], None
        ad = self.m.addr[b['id']]
        if kind == 'ping':
            return 0, [(ad, C('MSG_SYS_PING'), bytes([arg]))], None
        if kind == 'identify':
            if arg > 1:
                return 1, [], None
            return 0, [(ad, C('MSG_SYS_IDENTIFY'), bytes([arg]))], None
        if kind == 'pversion':
            return 0, [(ad, C('MSG_SYS_GET_P_VERSION'), b'')], None
        if kind == 'swversion':
            return 0, [(ad, C('MSG_SYS_GET_SW_VERSION'), b'')], None
        if kind == 'booster':
            if not cfggen.is_booster(b):
                return 1, [], None
            return 0, [(ad, C('MSG_BOOST_ON') if arg else C('MSG_BOOST_OFF'), bytes([1]))], None
        if kind == 'to_state':
            if not cfggen.is_track_output(b):
                return 1, [], None
            return 0, [(ad, C('MSG_CS_SET_STATE'), bytes([arg]))], None
        raise KeyError(kind)

    def reverser(self, rid, board):
        b = self.m.boards.get(board) if board is not None else None
        if rid is None or b is None or not self.m.connected(b['id']):
            return 1, [], None
        r = next((r for bb in self.cfg['boards'] for r in (bb.get('reversers') or []) if r['id'] == rid), None)
        if r is None:
            return 1, [], None
        owner = next(bb for bb in self.cfg['boards'] if r in (bb.get('reversers') or []))
        if owner is not b:
            return None, None, None     # reverser of another board: documents are silent -> not judged
        cv = r['cv'].encode()

        return 0, [(self.m.addr[b['id']], C('MSG_VENDOR_GET'), bytes([len(cv)]) + cv)], None

def gen_scenario(ctx, k):
    rng = ctx.sub_rng('c09', k)
    cfg = cfggen.gen_config(rng, nboards=rng.randrange(1, 5) if k % 2 == 0 else rng.randrange(3, 7), with_initial=(k % 2 == 0))
    # make sure the interesting equipment exists
    if not cfg['trains']:
        cfg['trains'].append({'id': 'xtrain', 'addr': cfggen.free_dcc(cfg, (0x3E, 0xEE)), 'steps': rng.choice(cfggen.SPEED_STEPS), 'calibration': sorted(rng.randrange(127) for _ in range(9)),
                              'peripherals': [{'id': f'xfn{b}', 'bit': b, 'initial': None} for b in rng.sample([b for b in range(32) if b not in (5, 6, 7)], 6)]})
    with_notices = (k % 2 == 1)
    if with_notices:
        # more interfaces, so that boards sit beneath other boards and the loss of an interface disconnects a subtree
        for b in cfg['boards']:
            if rng.random() < 0.5:
                b['uid'] = bytes([b['uid'][0] | 0x80]) + b['uid'][1:]
    d = cfggen.write_config(cfg, cfg_dir(f'c09_{k}'))
    nodes = cfggen.assign_tree(rng, cfg, absent_prob=0.2)
    m = statemodel.Model(cfg, nodes)
    enc = Encoder(cfg, m)
    # effect of startup on what later encodings depend on: initial train functions (only if a track output is connected)
    tos = [b for b in cfg['boards'] if m.connected(b['id']) and cfggen.is_track_output(b)]
    if tos:
        for t in cfg['trains']:
            for p in t.get('peripherals') or []:
                if p.get('initial') is not None:
                    m.st['trains'][t['id']]['periphs'][p['id']] = p['initial']
    sc = Scn(seed=ctx.seed * 59 + k, watchdog=300000)
    sc.add(*cfggen.bus_lines(cfg, nodes), 'bus brackets 1', f'start {d} 0', 'quiesce')
    cmds = []
    hooks = {}
    allb = [b['id'] for b in cfg['boards']]
    to_ids = [b['id'] for b in cfg['boards'] if cfggen.is_track_output(b)] or [None]
    UNK = 'no-such-id'

    def add(line, exp):
        ret, msgs, hook = exp
        i = len(cmds)
        cmds.append((line, ret, msgs))
        sc.add(f'mark c{i}', line, 'flush', 'quiesce')
        if ret in (0, None):
            for (ad, t, dta) in msgs:
                m.on_wire(ad, t, dta)
            if hook:
                hook(m)
                hooks[f'h{i}'] = hook
                sc.add(f'mark h{i}')
        if ret not in (0, None) and rng.random() < 0.15 or rng.random() < 0.02:
            sc.add(f'snap s{i}')
    work = []

    def near(idv):
        """identifiers that are NOT defined but close to a defined one: it extended, truncated, empty, with another case"""
        c = [idv + 'x', idv + idv, idv[:-1], idv[:1], '', idv.upper() if idv.upper() != idv else idv.lower(), ' ' + idv, idv + ' ']
        return [x for x in c if x != idv and ' ' not in x and x != '']        # scenario tokens cannot carry blanks or be empty
    for b in cfg['boards']:
        for kind, fn, isp in (('points_board', 'bidib_switch_point', True), ('points_dcc', 'bidib_switch_point', True),
                              ('signals_board', 'bidib_set_signal', False), ('signals_dcc', 'bidib_set_signal', False)):
            for a in b.get(kind) or []:
                defined = [x[0] for x in a['aspects']]
                nm = [x for x in near(rng.choice(defined)) if x not in defined][:2]
                for aid in defined + [UNK] + nm:
                    work.append((fn, [S_(a['id']), S_(aid)], lambda a=a, aid=aid, isp=isp: enc.accessory(isp, a['id'], aid)))
                for pid in near(a['id'])[:1]:
                    work.append((fn, [S_(pid), S_(defined[0])], lambda pid=pid, d0=defined[0], isp=isp: enc.accessory(isp, pid, d0)))
                # a point id given to set_signal (and vice versa) names no equipment of that kind
                other = 'bidib_set_signal' if isp else 'bidib_switch_point'
                work.append((other, [S_(a['id']), S_(a['aspects'][0][0])], lambda a=a, isp=isp: enc.accessory(not isp, a['id'], a['aspects'][0][0])))
        for a in b.get('peripherals') or []:
            defined = [x[0] for x in a['aspects']]
            nm = [x for x in near(rng.choice(defined)) if x not in defined][:2]
            for aid in defined + [UNK] + nm:
                work.append(('bidib_set_peripheral', [S_(a['id']), S_(aid)], lambda a=a, aid=aid: enc.peripheral(a['id'], aid)))
        for r in b.get('reversers') or []:
            for bb in allb + [UNK]:
                work.append(('bidib_request_reverser_state', [S_(r['id']), S_(bb)], lambda r=r, bb=bb: enc.reverser(r['id'], bb)))
        for (fn, kind, args) in (('bidib_ping', 'ping', [rng.randrange(256)]), ('bidib_identify', 'identify', [rng.choice([0, 1, 2, 255])]),
                                 ('bidib_get_protocol_version', 'pversion', []), ('bidib_get_software_version', 'swversion', []),
                                 ('bidib_set_booster_power_state', 'booster', [rng.randrange(2)]),
                                 ('bidib_set_track_output_state', 'to_state', [rng.choice([0, 1, 2, 3, 4, 8])])):
            work.append((fn, [S_(b['id'])] + args, lambda b=b, kind=kind, args=args: enc.board_cmd(kind, b['id'], args[0] if args else None)))
    def to_all(state):
        msgs = []
        for b_ in cfg['boards']:
            if m.connected(b_['id']) and cfggen.is_track_output(b_):
                msgs.append((m.addr[b_['id']], C('MSG_CS_SET_STATE'), bytes([state])))
        return None, msgs, None          # void function: every connected track output gets the command, whatever the library believes its state to be
    for st_ in rng.sample([0, 1, 2, 3, 4, 8], 3) + [3, 3]:
        work.append(('bidib_set_track_output_state_all', [st_], lambda st_=st_: to_all(st_)))
    work.append(('bidib_switch_point', [S_(UNK), S_(UNK)], lambda: enc.accessory(True, UNK, UNK)))
    work.append(('bidib_switch_point', ['@null', S_(UNK)], lambda: enc.accessory(True, None, UNK)))
    work.append(('bidib_set_signal', [S_(UNK), '@null'], lambda: enc.accessory(False, UNK, None)))
    work.append(('bidib_set_peripheral', ['@null', '@null'], lambda: enc.peripheral(None, None)))
    work.append(('bidib_ping', [S_(UNK), 1], lambda: enc.board_cmd('ping', UNK, 1)))
    work.append(('bidib_ping', ['@null', 1], lambda: enc.board_cmd('ping', None, 1)))
    # trains: every speed (sub-sampled per train), calibrated speeds, emergency stop, every function bit x {0,1,2,255}
    for t in cfg['trains']:
        speeds = list(range(-130, 131)) if (ctx.tier == 'thorough' or t is cfg['trains'][0]) else rng.sample(range(-130, 131), 40) + [0, 0, 126, -126, 127, -127]
        # far out of range: values whose low byte / low 16 bits look like a legal speed
        speeds += [255, -255, 256, -256, 257, 300, -300, 382, 383, 511, 512, 638, 1000, -1000, 4106, 65535, 65536, 65556, -65580, 1 << 20, (1 << 31) - 1, -(1 << 31) + 1]
        rng.shuffle(speeds)
        for sp in speeds:
            to = rng.choice(to_ids + allb[:1] + [UNK]) if rng.random() < 0.15 else rng.choice(to_ids)
            work.append(('bidib_set_train_speed', [S_(t['id']), sp, S_(to)], lambda t=t, sp=sp, to=to: enc.speed(t['id'], sp, to)))
        for kk in list(range(-10, 11)) + [255, 256, 257, -256, 65537, 1 << 20]:
            to = rng.choice(to_ids)
            work.append(('bidib_set_calibrated_train_speed', [S_(t['id']), kk, S_(to)], lambda t=t, kk=kk, to=to: enc.calibrated(t['id'], kk, to)))
        work.append(('bidib_emergency_stop_train', [S_(t['id']), S_(rng.choice(to_ids))], None))
        for p in t.get('peripherals') or []:
            for stv in (1, 0, 1, 2, 255, 1):
                to = rng.choice(to_ids)
                work.append(('bidib_set_train_peripheral', [S_(t['id']), S_(p['id']), stv, S_(to)], lambda t=t, p=p, stv=stv, to=to: enc.function(t['id'], p['id'], stv, to)))
        work.append(('bidib_set_train_peripheral', [S_(t['id']), S_(UNK), 1, S_(rng.choice(to_ids))], lambda t=t: enc.function(t['id'], UNK, 1, to_ids[0])))
    work.append(('bidib_set_train_speed', [S_(UNK), 5, S_(to_ids[0])], lambda: enc.speed(UNK, 5, to_ids[0])))
    work.append(('bidib_set_train_speed', ['@null', 5, '@null'], lambda: enc.speed(None, 5, None)))
    rng.shuffle(work)
    version = [2]
    nnot = [0]
    lost_subtrees = [0]

    def node_lost():
        """a connected board (with everything beneath it, for an interface) drops off the bus: later commands for it must be refused"""
        conn = [b for b in cfg['boards'] if m.connected(b['id']) and m.addr[b['id']] != (0, 0, 0)]
        if not conn:
            return
        def below(x):
            ax = m.addr[x['id']]
            dx = 1 if ax[1] == 0 else 2 if ax[2] == 0 else 3
            return [y for y in conn if y is not x and dx < 3 and m.addr[y['id']][:dx] == ax[:dx]]
        withkids = [x for x in conn if below(x)]
        deep = [x for x in withkids if m.addr[x['id']][1] != 0]
        b = rng.choice(deep) if deep and rng.random() < 0.8 else rng.choice(withkids) if withkids and rng.random() < 0.7 else rng.choice(conn)
        lost_subtrees[0] += bool(below(b))
        a = m.addr[b['id']]
        dpt = 1 if a[1] == 0 else 2 if a[2] == 0 else 3
        parent = tuple(list(a[:dpt - 1]) + [0] * (3 - (dpt - 1)))
        data = bytes([version[0], a[dpt - 1]]) + b['uid']
        m.on_uplink(parent, C('MSG_NODE_LOST'), data)
        sc.add(f'mark cn{nnot[0]}', f'bus delnode {a[0]}.{a[1]}.{a[2]}', up(model.build_msg(parent, 0, C('MSG_NODE_LOST'), data)), 'quiesce', 'flush', 'quiesce')
        nnot[0] += 1
        version[0] = (version[0] % 255) + 1
    def node_moves():
        """a connected leaf board logs on again at another local address beneath the same interface: later commands go to the NEW address"""
        conn = [b for b in cfg['boards'] if m.connected(b['id']) and m.addr[b['id']] != (0, 0, 0)]
        used = {m.addr[b['id']] for b in conn} | {tuple(a) for a, _u in nodes}

        def kids(x):
            ax = m.addr[x['id']]
            dx = 1 if ax[1] == 0 else 2 if ax[2] == 0 else 3
            return [y for y in conn if y is not x and dx < 3 and m.addr[y['id']][:dx] == ax[:dx]]
        leaves = [b for b in conn if not kids(b)]
        if not leaves:
            return
        b = rng.choice(leaves)
        a = m.addr[b['id']]
        dpt = 1 if a[1] == 0 else 2 if a[2] == 0 else 3
        parent = tuple(list(a[:dpt - 1]) + [0] * (3 - (dpt - 1)))
        for _ in range(20):
            na = list(a)
            na[dpt - 1] = rng.randrange(1, 128)
            na = tuple(na)
            if na not in used:
                break
        else:
            return
        data = bytes([version[0], na[dpt - 1]]) + b['uid']
        m.on_uplink(parent, C('MSG_NODE_NEW'), data)
        sc.add(f'mark cn{nnot[0]}', f'bus delnode {a[0]}.{a[1]}.{a[2]}', f'bus node {na[0]}.{na[1]}.{na[2]} {b["uid"].hex()}', up(model.build_msg(parent, 0, C('MSG_NODE_NEW'), data)),
               'quiesce', 'flush', 'quiesce')
        nnot[0] += 1
        version[0] = (version[0] % 255) + 1
    moved_at = set(rng.sample(range(max(1, len(work) // 3)), min(max(1, len(work) // 3), rng.randrange(0, 3)))) if with_notices else set()
    lost_at = set(rng.sample(range(max(1, len(work) // 3)), min(max(1, len(work) // 3), rng.randrange(1, 4)))) if with_notices else set()   # early: most commands come afterwards
    for wi, (fn, args, expf) in enumerate(work):
        if wi in moved_at:
            node_moves()
        if wi in lost_at:
            node_lost()
        if expf is None:      # emergency stop
            tid, to = args[0][2:], (args[1][2:] if args[1] != '@null' else None)
            exp = enc.estop(tid, to)
        else:
            exp = expf()
        if exp[0] is None and fn != 'bidib_set_track_output_state_all':
            continue
        add(call(fn, *args), exp)
    sc.add('snap end', 'mark cend', 'stop')
    return sc.text(), cfg, nodes, cmds, hooks

def evaluate(ctx, r, cfg, nodes, cmds, hooks, meta):
    if ctx.generic_failures(r, meta):
        return
    if runner.outcome(r) != 'ok':
        return
    begin, ret_i = fold.session_start_index(r.events)
    if ret_i is None:
        ctx.inconclusive.append('start did not return')
        return
    if r.events[ret_i].get('r') != 0:
        # the generator writes valid configurations only (documented layout; numbers in every notation that denotes the same value): no command
        # can be judged against a configuration the library refused
        errs = [e['line'] for e in r.events if e.get('e') == 'logerr'][:2]
        ctx.violation('start-failed', 'valid-config', f'a valid configuration was rejected, no command could be submitted: {errs}', r.scenario, r.flavour, meta)
        return
    seen = batch.split_by_marks(r.events)
    for i, (line, ret, msgs) in enumerate(cmds):
        evs = seen.get(i)
        if evs is None:
            ctx.inconclusive.append('command not reached')
            return
        fn = line.split()[1]
        rv = next((e['r'] for e in evs if e.get('e') == 'ret'), None)
        got = [(tuple(e['addr']), e['type'], bytes.fromhex(e['data'])) for e in evs if e.get('e') == 'txm']
        ctx.evaluations += 1
        if rv != ret:
            cls = 'returned-0-on-error' if ret == 1 else 'rejected-valid'
            ctx.violation(cls, fn, f'{line}: returned {rv}, expected {ret} (wire: {[(a, hex(t), d.hex()) for a, t, d in got]})', r.scenario, r.flavour, meta)
            return
        if ret == 1 and got:
            ctx.violation('message-on-error', fn, f'{line}: returned 1 but submitted {[(a, hex(t), d.hex()) for a, t, d in got]}', r.scenario, r.flavour, meta)
            return
        if ret in (0, None) and sorted(got) != sorted((tuple(a), t, d) for (a, t, d) in msgs) if fn == 'bidib_set_track_output_state_all' else ret == 0 and got != [(tuple(a), t, d) for (a, t, d) in msgs]:
            ctx.violation('encoding', fn, f'{line}: wire {[(a, hex(t), d.hex()) for a, t, d in got]}, configuration prescribes {[(tuple(a), hex(t), d.hex()) for a, t, d in msgs]}',
                          r.scenario, r.flavour, meta)
            return
        ctx.nontrivial.add((fn, ret, len(msgs), meta['digest']))
    m = statemodel.Model(cfg, nodes)
    bad = []

    def on_snap(mm, e):
        diffs = statemodel.compare_state(mm, e['state'])
        ctx.count('snapshots_compared')
        if diffs and not bad:
            bad.append((e.get('tag'), diffs))
    fold.fold(m, r.events, begin, hooks, on_snap)
    if bad:
        tag, diffs = bad[0]
        path = diffs[0][0]
        field = '.'.join(p for p in path.split('.') if not any(ch.isdigit() for ch in p)) or path
        ctx.violation('state-after-command', field, f'snapshot {tag}: {diffs[0][0]} is {diffs[0][2]}, expected {diffs[0][1]} (optimistic state / unchanged on error)',
                      r.scenario, r.flavour, meta)

def run(ctx):
    ctx.rule = ('per generated configuration and node tree (some boards absent): every configured accessory/peripheral id x every aspect + an undefined aspect, '
                'kind mix-ups, every speed -130..130 (all for one train, 46 sampled for the others in quick), calibrated speeds -10..10, emergency stop, every '
                'function x {1,0,1,2,255,1} (so group bytes depend on history), reverser requests, admin commands, unknown ids, disconnected boards, NULL; '
                'return value + decoded wire per command, snapshots after ~15% of the error commands. non-trivial = distinct (function, outcome, message count, config)')
    ctx.assumptions = ['encoder vlib/props/C09.py from the header docs and bidib_messages.h layouts', 'accessory numbers / aspect values generated in the BiDiB range 0..127',
                       'a reverser requested through a board it does not belong to is not judged']
    jobs = []
    for k in range(ctx.n(60, 1500)):
        jobs.append(gen_scenario(ctx, k))
    res = runner.run_many('asan', [(i, j[0]) for i, j in enumerate(jobs)], timeout=900)
    for j, r in zip(jobs, res):
        meta = {'digest': hashlib.sha1(j[0].encode()).hexdigest()[:12], 'commands': len(j[3])}
        evaluate(ctx, r, j[1], j[2], j[3], j[4], meta)
    ctx.sample({'commands': [c[0] for c in jobs[0][3][:8]], 'expected': [(c[1], [(a, hex(t), d.hex()) for a, t, d in c[2]]) for c in jobs[0][3][:8]]})
    return ctx.finish(min_eval=500, min_nontrivial=50)
