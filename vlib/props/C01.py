"""C01 - downlink bytes are well-formed packets carrying each sent message exactly once.
Oracle: strict reference decoder over the concatenation of all write_n chunks; multiset/order equality with the
reference encoding of every accepted call; capacity bound for multi-message packets."""
import os
from collections import Counter, defaultdict

from .. import build, gen, model, runner, spec_lowlevel as S, sweep
from ..scen import Scn, call, up

# incl. pairs of nodes that share a high (>= 0x80) second- / third-level byte under different parents: every node has its own flow-control state
ADDRS = [(0, 0, 0), (1, 0, 0), (2, 5, 0), (3, 254, 253), (1, 200, 0), (2, 200, 0), (4, 254, 253), (1, 1, 144), (1, 2, 144)]
TESTCFG = os.path.join(build.REPO, 'test', 'unit', 'state_tests_config')

def bus_lines(nodes=ADDRS):
    ls = ['bus mode answer', 'bus brackets 0']
    for k, ad in enumerate(nodes):
        ls.append(f'bus node {ad[0]}.{ad[1]}.{ad[2]} 0{k}00aabbccdd{k:02x}')
    return ls

def crc_target_call(rng, addr, seq, target):
    """a sys_ping / feature_set call whose single-message packet has CRC == target (0xFE or 0xFD)"""
    name = rng.choice(['bidib_send_sys_ping', 'bidib_send_feature_set', 'bidib_send_node_changed_ack'])
    r = S.rows()[name]
    base = {an: gen.rbyte(rng) for an in r['args']}
    last = r['args'][-1]
    for v in range(256):
        a = dict(base)
        a[last] = v
        st, data = S.expected(name, addr, a)
        if st != 'accept':
            continue
        msg = gen.expected_msg(name, addr, data, seq)
        if model.crc8(msg) == target:
            return name, addr, a, data
    return None

# ---------------------------------------------------------------- sequential scenarios (debug mode)
def gen_sequential(ctx, k):
    rng = ctx.sub_rng('seq', k)
    sc = Scn(seed=ctx.seed * 100000 + k, watchdog=120000)
    sc.add(*bus_lines(), 'debug 1', 'start @null 0')
    seqs = defaultdict(lambda: 1)
    calls = []
    n = rng.randrange(5, 60)
    style = rng.choice(['mixed', 'burst', 'single', 'crc'])
    pending_since_flush = 0
    for i in range(n):
        ad = rng.choice(ADDRS)
        if style == 'crc' or (style == 'mixed' and rng.random() < 0.15):
            # a packet of exactly one message whose CRC byte itself needs escaping
            if pending_since_flush:
                sc.add('flush', 'quiesce')
                pending_since_flush = 0
            c = crc_target_call(rng, ad, seqs[ad], rng.choice([0xFE, 0xFD]))
            if c:
                name, ad2, a, data = c
                sc.add(call(name, *S.tokens(name, ad2, a)), 'flush', 'quiesce')
                calls.append((name, ad2, data, seqs[ad2], 'crc'))
                seqs[ad2] = model.seq_next(seqs[ad2])
                continue
        name, ad2, a, data = gen.random_call(rng, ad, hot=0.6, long_bias=0.3 if style != 'burst' else 0.05)
        sc.add(call(name, *S.tokens(name, ad2, a)))
        calls.append((name, ad2, data, seqs[ad2], ''))
        seqs[ad2] = model.seq_next(seqs[ad2])
        pending_since_flush += 1
        p = {'mixed': 0.3, 'burst': 0.05, 'single': 1.0, 'crc': 1.0}[style]
        if rng.random() < p:
            sc.add('flush')
            if rng.random() < 0.7:
                sc.add('quiesce')
            pending_since_flush = 0
    # let all answers arrive so that budget-deferred messages are released, then a final flush
    sc.add('flush', 'quiesce', 'flush', 'quiesce', 'flush', 'quiesce', 'mark done', 'stop')
    return sc.text(), calls, 64

# ---------------------------------------------------------------- capacity scenarios (normal mode)
def gen_capacity(ctx, k, cap=None, fill=None):
    rng = ctx.sub_rng('cap', k)
    cap = rng.randrange(256) if cap is None else cap
    sc = Scn(seed=ctx.seed * 100000 + k, watchdog=120000)
    if fill is None and k % 5 == 2:
        # the session under test runs in low-level debug mode, where nobody announces a capacity (64 bytes are in force), after a session
        # whose interface announced much more
        sc.add(*bus_lines([(0, 0, 0)]), f'bus cap {rng.randrange(128, 256)}', normal_start_line(), 'quiesce', 'stop', 'bus clear', *bus_lines([(0, 0, 0)]), 'debug 1', 'start @null 0')
        cap = 0
    else:
        sc.add(*bus_lines([(0, 0, 0)]), f'bus cap {cap}', normal_start_line())
    eff = max(64, cap)
    reannounce = fill is None and cap != 0 and k % 3 == 1
    calls = []
    seq = None   # numbering restarts after the reset in start; the oracle takes the first observed seq as base
    # zero-response messages to node 0 never wait for budget: pure packet-filling behaviour
    zr = gen.zero_response_names()
    n = rng.randrange(10, 80)
    if isinstance(fill, tuple) and fill[0] == 'staging':
        # the escaped image of ONE packet ends within a few bytes of the 312-byte staging buffer: eleven 22-byte messages (242 bytes fit the
        # announced capacity 255) whose data contain fill[1] bytes that need escaping in total - swept by the caller over the boundary
        left = fill[1]
        for i in range(11):
            m_i = min(16, left) if i < 10 else min(16, left)
            take = min(16, max(0, left - 16 * (10 - i))) if False else min(16, left)
            left -= take
            d = [rng.choice([0xFE, 0xFD])] * take + [0x41 + (i % 20)] * (16 - take)
            rng.shuffle(d)
            a = {'mnum': 8 * i, 'size': 128, 'data': bytes(d)}
            st, data = S.expected('bidib_send_bm_mirror_multiple', (0, 0, 0), a)
            sc.add(call('bidib_send_bm_mirror_multiple', *S.tokens('bidib_send_bm_mirror_multiple', (0, 0, 0), a)))
            calls.append(('bidib_send_bm_mirror_multiple', (0, 0, 0), data, None, ''))
        sc.add('flush', 'quiesce', 'mark done', 'stop')
        return sc.text(), calls, eff
    for i in range(n):
        if fill == 'fe':
            # vendor-less: sys_clock / node_changed_ack are short; use string... zero-response long: fw? none. Use bm_mirror_multiple with FE data
            name = 'bidib_send_bm_mirror_multiple'
            a = {'mnum': 0xF8 if rng.random() < 0.5 else 0, 'size': 128, 'data': bytes([0xFE] * 16)}
            ad = (0, 0, 0)
            st, data = S.expected(name, ad, a)
        else:
            name, ad, a, data = gen.random_call(rng, (0, 0, 0), names=zr, hot=0.6)
        sc.add(call(name, *S.tokens(name, ad, a)))
        calls.append((name, ad, data, None, ''))
        if reannounce and rng.random() < 0.1:
            # the interface announces another capacity in mid-session (lower or higher), with messages waiting in the send buffer: what was
            # accepted stays accepted; packets filled from now on obey the new value (the bound checked here is the largest one in force so far)
            c2 = rng.choice([0, 10, 64, 65, 100, 128, 200, 255])
            if rng.random() < 0.4:
                # ... or some OTHER node reports the capacity of its own sub-bus (the answer to a bidib_send_get_pkt_capacity of the application,
                # say): that is not the interface the packets are written to
                sc.add(up(model.build_msg(rng.choice([(5, 0, 0), (1, 2, 0), (9, 8, 7)]), 0, model.C('MSG_PKT_CAPACITY'), bytes([rng.choice([200, 255, 255])]))), 'quiesce')
            else:
                sc.add(up(model.build_msg((0, 0, 0), 0, model.C('MSG_PKT_CAPACITY'), bytes([c2]))), 'quiesce')
                eff = max(eff, c2)
        if rng.random() < 0.08:
            sc.add('flush')
    sc.add('flush', 'quiesce', 'mark done', 'stop')
    return sc.text(), calls, eff

def normal_start_line():
    return f'start {TESTCFG} 0'

# ---------------------------------------------------------------- concurrent scenarios
def gen_concurrent(ctx, k):
    rng = ctx.sub_rng('conc', k)
    nt = rng.choice([2, 3, 4, 8, 16])
    fi = rng.choice([0, 1, 1, 2, 5])
    sc = Scn(seed=ctx.seed * 100000 + k, perturb=rng.choice([0, 50, 200, 500]), watchdog=180000)
    sc.add(*bus_lines(), 'debug 1', f'start @null {fi}')
    zr = gen.zero_response_names()
    per = rng.randrange(20, 120)
    calls = []
    sc.add(f'par {nt}')
    for t in range(nt):
        for j in range(per):
            ad = rng.choice(ADDRS)
            # unique id in the data: thread and counter
            if rng.random() < 0.5:
                name, a = 'bidib_send_node_changed_ack', {'num': (t * 16 + j) & 0xFF}
            else:
                name = 'bidib_send_sys_clock'
                a = {'t0': j % 60, 't1': 0x80 + (t % 24), 't2': 0x40 + (j // 60) % 7, 't3': 0xC0 + rng.randrange(32)}
            if rng.random() < 0.3:
                name, ad, a, data = gen.random_call(rng, ad, names=zr, hot=0.7)
            else:
                st, data = S.expected(name, ad, a)
            sc.add(f't {t} ' + call(name, *S.tokens(name, ad, a)))
            calls.append((name, ad, data, None, f't{t}'))
            if rng.random() < 0.1:
                sc.add(f't {t} flush')
    sc.add('endpar', 'flush', 'quiesce', 'flush', 'mark done', 'stop')
    return sc.text(), calls, 64

def gen_directed(ctx, k):
    """directed preemption: thread A is paused at its j-th scheduling point inside a send (or a flush) while thread B sends messages full of
    escapes to the same and to other nodes and flushes; j sweeps over lock operations and library function entries. Same oracle as the
    concurrent scenarios: well-formed packets, whole messages, multiset equality, per-thread order."""
    rng = ctx.sub_rng('dir', k)
    fn = bool(k % 2)
    kmax = 40 if fn else 9
    sc = Scn(seed=ctx.seed * 100000 + k, perturb=0, watchdog=180000)
    sc.add(*bus_lines(), 'debug 1', 'start @null 0')
    zr = gen.zero_response_names()
    calls = []
    uid = [0]

    def one(tname, same_as=None):
        ad = rng.choice(ADDRS)
        if same_as is not None:
            # the SAME function in both threads, other arguments: a function that builds its message in storage shared between calls shows here
            name, ad, a, data = gen.random_call(rng, ad, names=[same_as], hot=0.5, long_bias=0.3)
            calls.append((name, ad, data, None, tname))
            return call(name, *S.tokens(name, ad, a))
        if rng.random() < 0.5:
            uid[0] += 1
            name, a = 'bidib_send_sys_clock', {'t0': uid[0] % 60, 't1': 0x80 + (uid[0] // 60) % 24, 't2': 0x40 + (uid[0] // 1440) % 7, 't3': 0xC0 + rng.randrange(32)}
            st, data = S.expected(name, ad, a)
        else:
            name, ad, a, data = gen.random_call(rng, ad, names=zr, hot=0.8, long_bias=0.3)
        calls.append((name, ad, data, None, tname))
        return call(name, *S.tokens(name, ad, a))
    for i in range(rng.randrange(40, 80)):
        j = 1 + (i * 3 + k) % kmax
        a_lines = [one('t0')] if rng.random() < 0.8 else ['flush']
        b_lines = []
        if a_lines[0] != 'flush' and rng.random() < 0.5:
            b_lines.append(one('t1', same_as=calls[-1][0]))
        for _ in range(rng.randrange(1, 4)):
            b_lines.append(one('t1') if rng.random() < 0.75 else 'flush')
        sweep.add_two_thread_case(sc, i, a_lines, b_lines, j, fn, after=(('flush',) if rng.random() < 0.6 else ()))
    sc.add('flush', 'quiesce', 'flush', 'mark done', 'stop')
    return sc.text(), calls, 64

# ---------------------------------------------------------------- oracle
def evaluate(ctx, r, calls, cap, kind, meta):
    if ctx.generic_failures(r, meta):
        return
    if runner.outcome(r) != 'ok':
        return
    upto = None
    for e in r.events:
        if e.get('e') == 'mark' and e.get('m') == 'done':
            upto = e['n']
    if upto is None:
        ctx.inconclusive.append('no done marker')
        return
    start_ret = None
    for e in r.events:
        if e.get('e') == 'ret' and e.get('f') == 'bidib_start_pointer' and e['n'] < upto:
            start_ret = e['n']          # the session under test is the last one (an earlier session may have announced another capacity)
    chunks = [bytes.fromhex(e['hex']) for e in r.events if e.get('e') == 'tx' and start_ret is not None and start_ret < e['n'] < upto]
    pre = [bytes.fromhex(e['hex']) for e in r.events if e.get('e') == 'tx' and (start_ret is None or e['n'] < start_ret)]
    stream = b''.join(chunks)
    try:
        # traffic emitted during start must be well-formed too
        model.strict_deframe(b''.join(pre))
        pk = model.strict_deframe(stream)
    except model.FrameError as e:
        ctx.violation('framing', kind, f'write_n byte stream is not a sequence of packets: {e}', r.scenario, r.flavour, meta)
        return
    wire = []
    esc = 0
    multi = 0
    for p in pk:
        try:
            ms = model.split_messages(p['payload'])
        except model.FrameError as e:
            ctx.violation('torn-message', kind, f'packet payload is not a whole number of messages: {e} payload={p["payload"].hex()}', r.scenario, r.flavour, meta)
            return
        esc += p['escapes']
        if p['crc_escaped']:
            ctx.count('crc_escaped_packets')
        if len(ms) > 1:
            multi += 1
            if len(p['payload']) > cap:
                ctx.violation('capacity', kind, f'packet with {len(ms)} messages has payload {len(p["payload"])} > capacity {cap}', r.scenario, r.flavour, meta)
        ctx.count('packets')
        if p['raw_len'] > 312:
            ctx.count('packets_longer_than_staging_buffer')
        for m in ms:
            try:
                wire.append(model.parse_msg(m))
            except model.FrameError as e:
                ctx.violation('torn-message', kind, f'undecodable message {m.hex()}: {e}', r.scenario, r.flavour, meta)
                return
    ctx.count('wire_messages', len(wire))
    ctx.count('escaped_bytes', esc)
    ctx.count('multi_message_packets', multi)
    # expected multiset (ignoring seq) and per-node order
    exp = Counter((ad, model.C(S.rows()[name]['type']), data) for (name, ad, data, _s, _t) in calls)
    got = Counter((tuple(w['addr']), w['type'], w['data']) for w in wire)
    if exp != got:
        missing = list((exp - got).items())[:3]
        extra = list((got - exp).items())[:3]
        cls = 'dropped' if missing and not extra else 'duplicated-or-foreign' if extra and not missing else 'mismatch'
        def fmt(x):
            return [(a, hex(t), d.hex(), n) for ((a, t, d), n) in x]
        ctx.violation(cls, kind, f'wire multiset != submitted: missing {fmt(missing)} extra {fmt(extra)}', r.scenario, r.flavour, meta)
        return
    if kind != 'concurrent':
        # single submitter: per-node wire order == submission order, seq as modelled
        pernode_exp = defaultdict(list)
        for (name, ad, data, s, _t) in calls:
            pernode_exp[ad].append((model.C(S.rows()[name]['type']), data, s))
        pernode_got = defaultdict(list)
        for w in wire:
            pernode_got[tuple(w['addr'])].append((w['type'], w['data'], w['seq']))
        for ad in pernode_exp:
            e_, g_ = pernode_exp[ad], pernode_got[ad]
            if [x[:2] for x in e_] != [x[:2] for x in g_]:
                ctx.violation('order', kind, f'per-node wire order differs from submission order for {ad}', r.scenario, r.flavour, meta)
                return
            if all(x[2] is not None for x in e_) and [x[2] for x in e_] != [x[2] for x in g_]:
                ctx.violation('byte-identity', kind, f'sequence numbers on the wire {[x[2] for x in g_][:10]} differ from the reference encoding {[x[2] for x in e_][:10]} for {ad}', r.scenario, r.flavour, meta)
                return
    else:
        # per (thread, node) order preserved
        keys = Counter((ad, model.C(S.rows()[name]['type']), data) for (name, ad, data, _s, t) in calls)
        wpos = {}
        for i, w in enumerate(wire):
            wpos[(tuple(w['addr']), w['type'], w['data'])] = i
        last = {}
        for (name, ad, data, _s, t) in calls:
            key = (ad, model.C(S.rows()[name]['type']), data)
            if keys[key] != 1:
                continue
            p_ = wpos[key]
            if (t, ad) in last and last[(t, ad)] > p_:
                ctx.violation('order', kind, f'messages of one thread to node {ad} appear on the wire in a different order than submitted', r.scenario, r.flavour, meta)
                return
            last[(t, ad)] = p_
        ctx.add_set('interleavings', hash(tuple((tuple(w['addr']), w['type'], w['data'][:1]) for w in wire)))
    if esc or multi:
        ctx.nontrivial.add(meta['digest'])
    ctx.evaluations += 1

def run(ctx):
    ctx.rule = ('seeded sequences of valid low-level calls (all send functions, address depth 0-3, bytes biased to FE/FD/00/FF, '
                'max-length payloads, last byte solved so that the packet CRC is FE/FD), random flush placement; normal-mode sessions '
                'with every announced capacity, packets whose escaped image ends within a few bytes of the 312-byte staging buffer (swept); concurrent senders with auto-flush under asan and tsan; directed preemption (a sender or flush paused at each of its scheduling points while another thread sends and flushes). non-trivial = distinct scenario '
                'with >=1 escaped byte or >=1 multi-message packet')
    ctx.assumptions = ['reference codec in vlib/model.py (CRC computed bitwise)', 'spec table vlib/spec_lowlevel.py for the reference encoding',
                       'simulated bus answers every request so that budget-deferred messages are eventually released']
    jobs = []
    nseq = ctx.n(400, 12000)
    for k in range(nseq):
        text, calls, cap = gen_sequential(ctx, k)
        jobs.append(('asan', 'sequential', text, calls, cap))
    ncap = ctx.n(256, 256 * 8)
    for k in range(ncap):
        text, calls, cap = gen_capacity(ctx, k, cap=k % 256, fill='fe' if (k % 256 in (255, 254, 200) or k % 7 == 0) else None)
        jobs.append(('asan', 'capacity', text, calls, cap))
    for rep in range(ctx.n(1, 20)):
        for total in range(40, 100):
            text, calls, cap = gen_capacity(ctx, 50000 + rep * 100 + total, cap=255, fill=('staging', total))
            jobs.append(('asan', 'capacity', text, calls, cap))
    nconc = ctx.n(40, 1500)
    for k in range(nconc):
        text, calls, cap = gen_concurrent(ctx, k)
        jobs.append(('tsan' if k % 2 else 'asan', 'concurrent', text, calls, cap))
    for k in range(ctx.n(24, 1000)):
        text, calls, cap = gen_directed(ctx, k)
        jobs.append(('mon' if k % 4 < 2 else 'asan', 'concurrent', text, calls, cap, 'directed'))
    import hashlib
    by_fl = {}
    for j in jobs:
        by_fl.setdefault(j[0], []).append(j)
    for fl, js in by_fl.items():
        res = runner.run_many(fl, [(i, j[2]) for i, j in enumerate(js)], timeout=300)
        for j, r in zip(js, res):
            meta = {'kind': j[1], 'digest': hashlib.sha1(j[2].encode()).hexdigest()[:12], 'cap': j[4]}
            evaluate(ctx, r, j[3], j[4], j[1], meta)
            if len(j) > 5:
                sweep.pause_stats(ctx, r.events, 'directed')
            if len(ctx.samples) < 3 and j[1] not in [s.get('kind') for s in ctx.samples]:
                ctx.samples.append({'kind': j[1], 'flavour': fl, 'scenario_head': j[2].split('\n')[:14], 'calls': len(j[3])})
    return ctx.finish(min_eval=50, min_nontrivial=20)
