"""Reference flow-control model (C03 budget / C04 stall), written from the property statements.

The model is driven by the same step list as the scenario. It is *exact* for "clean" histories
(single submitter, every processed uplink message is either the answer to the oldest unanswered request of its
node or cannot be an answer to any outstanding request, expiry only probed well past the 2 s limit together with the
opportunity the library needs to notice it). For other histories only the two-sided safety bound is used."""
from . import model

class Node:
    def __init__(self, addr):
        self.addr = addr
        self.out = []        # outstanding requests: dict(type, size, t, uid)
        self.held = []       # held messages: dict(type, size, uid)
        self.stalled = False

class Flow:
    def __init__(self, root_stall_counts=True):
        self.nodes = {}
        self.now = 0.0
        self.wire = []       # uids in the order the model hands them to the transmit buffer
        self.root_stall_counts = root_stall_counts

    def node(self, addr):
        addr = tuple(addr)
        if addr not in self.nodes:
            self.nodes[addr] = Node(addr)
        return self.nodes[addr]

    @staticmethod
    def ancestors_or_self(addr):
        a = list(addr)
        res = [tuple(a)]
        for i in (2, 1, 0):
            if a[i] != 0:
                a[i] = 0
                res.append(tuple(a))
        return res            # ends with (0,0,0) for every node

    def blocked_by_stall(self, addr):
        for a in self.ancestors_or_self(addr):
            if a == (0, 0, 0) and tuple(addr) != (0, 0, 0) and not self.root_stall_counts:
                continue
            n = self.nodes.get(a)
            if n and n.stalled:
                return True
        return False

    def used(self, n):
        return sum(r['size'] for r in n.out)

    def _try_release(self, n):
        released = []
        while n.held and not self.blocked_by_stall(n.addr):
            h = n.held[0]
            if self.used(n) + h['size'] <= model.BUDGET:
                n.held.pop(0)
                if h['size'] > 0:
                    n.out.append({'type': h['type'], 'size': h['size'], 't': self.now, 'uid': h['uid']})
                self.wire.append(h['uid'])
                released.append(h['uid'])
            else:
                break
        return released

    def send(self, addr, mtype, uid):
        n = self.node(addr)
        size = model.resp_size(mtype)
        if not self.blocked_by_stall(addr) and not n.held and self.used(n) + size <= model.BUDGET:
            if size > 0:
                n.out.append({'type': mtype, 'size': size, 't': self.now, 'uid': uid})
            self.wire.append(uid)
            return True
        n.held.append({'type': mtype, 'size': size, 'uid': uid})
        return False

    def expire(self, n):
        """drop outstanding requests older than the expiry; returns True if something was dropped"""
        keep = [r for r in n.out if self.now - r['t'] < model.EXPIRY_S]
        ch = len(keep) != len(n.out)
        n.out = keep
        return ch

    def uplink(self, addr, rtype):
        """a message of type rtype from node addr has been processed. Clean-history semantics: it answers the oldest
        outstanding request if that request accepts it; expired requests in front of it are dropped."""
        n = self.node(addr)
        # walk from the oldest awaited answer: the first entry that accepts this type is answered (once), expired ones go, the first
        # entry that is neither ends the walk
        matched = False
        while n.out:
            r = n.out[0]
            if not matched and rtype in model.resp_types(r['type']):
                n.out.pop(0)
                matched = True
            elif self.now - r['t'] >= model.EXPIRY_S:
                n.out.pop(0)
            else:
                break
        return self._try_release(n)

    def stall(self, addr, on):
        n = self.node(addr)
        n.stalled = bool(on)
        released = []
        # the notice is a message from that node: the opportunity to notice that awaited answers have expired. A node that has just said
        # "stalled" gets nothing, however much budget that frees
        self.expire(n)
        if not on:
            # every node beneath (and the node itself) may now be free
            for a, m in sorted(self.nodes.items()):
                if tuple(addr) in self.ancestors_or_self(a) or tuple(addr) == (0, 0, 0):
                    released += self._try_release(m)
        return released

    def could_answer_any(self, addr, rtype):
        n = self.nodes.get(tuple(addr))
        return bool(n) and any(rtype in model.resp_types(r['type']) for r in n.out)

    def answers_head(self, addr, rtype):
        n = self.nodes.get(tuple(addr))
        return bool(n and n.out and rtype in model.resp_types(n.out[0]['type']))
