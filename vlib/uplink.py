"""Valid uplink payloads per message type (layouts from bidib_messages.h field comments) and the
destination each type must be routed to (README + property C06)."""
from .model import C

def rb(rng):
    return rng.choice([0, 1, 2, 3, 0x7F, 0x80, 0xFE, 0xFD, 0xFF, rng.randrange(256)])

def _uid(rng):
    return bytes(rng.randrange(256) for _ in range(7))

CS_STATES = [0x00, 0x01, 0x02, 0x03, 0x04, 0x08, 0x09, 0x0D]
BOOST_OK = [0x00, 0x03, 0x04, 0x05, 0x06, 0x80, 0x81, 0x82, 0x84]
BOOST_ERR = [0x01, 0x02, 0x83]

def payload(rng, name, variant=None):
    """valid data bytes for an uplink message of the given type name; variant 'error'/'ok' where the type has one"""
    g = {
        'MSG_SYS_MAGIC': lambda: bytes([0xFE, 0xAF]),
        'MSG_SYS_PONG': lambda: bytes([rb(rng)]),
        'MSG_SYS_P_VERSION': lambda: bytes([rb(rng), rb(rng)]),
        'MSG_SYS_UNIQUE_ID': lambda: _uid(rng),
        'MSG_SYS_SW_VERSION': lambda: bytes([rb(rng), rb(rng), rb(rng)]),
        'MSG_SYS_ERROR': lambda: rng.choice([bytes([0x00]), bytes([0x02, rb(rng)]), bytes([0x03, rb(rng)]), bytes([0x04, rb(rng), rb(rng)]),
                                              bytes([0x05, rb(rng)]), bytes([0x10, rng.randrange(7)]), bytes([0x11, 1, 2, 3, 0]),
                                              bytes([0x12]) + _uid(rng), bytes([0x13, rb(rng)]), bytes([0x14, rb(rng)]), bytes([0x16]),
                                              bytes([0x20, rb(rng)]), bytes([0x21]), bytes([0x30, rb(rng)]), bytes([0x01, 2, 0x41, 0x42])]),
        'MSG_SYS_IDENTIFY_STATE': lambda: bytes([rng.randrange(2)]),
        'MSG_NODETAB_COUNT': lambda: bytes([rng.randrange(1, 32)]),
        'MSG_NODETAB': lambda: bytes([rb(rng), rng.randrange(128)]) + _uid(rng),
        'MSG_PKT_CAPACITY': lambda: bytes([rb(rng)]),
        'MSG_NODE_NA': lambda: bytes([rb(rng)]),
        'MSG_NODE_LOST': lambda: bytes([rb(rng), rng.randrange(1, 128)]) + _uid(rng),
        'MSG_NODE_NEW': lambda: bytes([rb(rng), rng.randrange(1, 128)]) + _uid(rng),
        'MSG_FW_UPDATE_STAT': lambda: bytes([rng.randrange(5), rb(rng)]),
        'MSG_FEATURE': lambda: bytes([rb(rng), rb(rng)]),
        'MSG_FEATURE_NA': lambda: bytes([rb(rng)]),
        'MSG_FEATURE_COUNT': lambda: bytes([rb(rng)]),
        'MSG_VENDOR': lambda: (lambda n, v: bytes([len(n)]) + n + bytes([len(v)]) + v)(
            bytes(rng.randrange(0x30, 0x7B) for _ in range(rng.randrange(1, 12))), bytes(rng.randrange(0x30, 0x3A) for _ in range(rng.randrange(1, 6)))),
        'MSG_VENDOR_ACK': lambda: bytes([rng.randrange(2)]),
        'MSG_STRING': lambda: (lambda s: bytes([rng.randrange(2), rb(rng), len(s)]) + s)(bytes(rng.randrange(0x20, 0x7F) for _ in range(rng.randrange(0, 20)))),
        'MSG_BM_OCC': lambda: bytes([rb(rng)]),
        'MSG_BM_FREE': lambda: bytes([rb(rng)]),
        'MSG_BM_MULTIPLE': lambda: (lambda sz: bytes([8 * rng.randrange(16), sz]) + bytes(rb(rng) for _ in range(sz // 8)))(8 * rng.randrange(1, 17)),
        'MSG_BM_ADDRESS': lambda: bytes([rb(rng)]) + b''.join(bytes([rb(rng), rb(rng)]) for _ in range(rng.randrange(1, 6))),
        'MSG_BM_ACCESSORY': lambda: bytes([rb(rng), rb(rng), rb(rng)]),
        'MSG_BM_CV': lambda: bytes([rb(rng) for _ in range(5)]),
        'MSG_BM_SPEED': lambda: bytes([rb(rng) for _ in range(4)]),
        'MSG_BM_CURRENT': lambda: bytes([rb(rng), rb(rng)]),
        'MSG_BM_XPOM': lambda: bytes([rb(rng) for _ in range(9)]),
        'MSG_BM_CONFIDENCE': lambda: bytes([rng.randrange(2) * rb(rng), rng.randrange(2) * rb(rng), rng.randrange(2) * rb(rng)]),
        'MSG_BM_DYN_STATE': lambda: bytes([rb(rng), rb(rng), rb(rng), rng.randrange(1, 6), rb(rng)]),
        'MSG_BM_RCPLUS': lambda: bytes([rb(rng) for _ in range(rng.randrange(2, 10))]),
        'MSG_BM_POSITION': lambda: bytes([rb(rng) for _ in range(5)]),
        'MSG_BOOST_STAT': lambda: bytes([rng.choice(BOOST_ERR if variant == 'error' else BOOST_OK)]),
        'MSG_BOOST_CURRENT': lambda: bytes([rb(rng)]),
        'MSG_BOOST_DIAGNOSTIC': lambda: b''.join(bytes([k, rb(rng)]) for k in rng.sample([0, 1, 2], rng.randrange(1, 4))),
        'MSG_ACCESSORY_STATE': lambda: bytes([rng.randrange(128), rng.randrange(128), rng.randrange(1, 8), 0x80 if variant == 'error' else rng.choice([0, 1, 2, 3]), rb(rng)]),
        'MSG_ACCESSORY_NOTIFY': lambda: bytes([rng.randrange(128), rng.randrange(128), rng.randrange(1, 8), 0x80 if variant == 'error' else rng.choice([0, 1, 2, 3]), rb(rng)]),
        'MSG_ACCESSORY_PARA': lambda: bytes([rng.randrange(128), rng.randrange(250, 256), rb(rng)]),
        'MSG_LC_STAT': lambda: bytes([rb(rng), rb(rng), rb(rng)]),
        'MSG_LC_NA': lambda: bytes([rb(rng), rb(rng)]),
        'MSG_LC_CONFIG': lambda: bytes([rb(rng) for _ in range(6)]),
        'MSG_LC_KEY': lambda: bytes([rb(rng), rb(rng)]),
        'MSG_LC_WAIT': lambda: bytes([rb(rng), rb(rng), rb(rng)]),
        'MSG_LC_CONFIGX': lambda: bytes([rb(rng), rb(rng)]) + bytes(rb(rng) for _ in range(2 * rng.randrange(0, 5))),
        'MSG_LC_MACRO_STATE': lambda: bytes([rb(rng), rb(rng)]),
        'MSG_LC_MACRO': lambda: bytes([rb(rng) for _ in range(6)]),
        'MSG_LC_MACRO_PARA': lambda: bytes([rb(rng) for _ in range(6)]),
        'MSG_CS_ALLOC_ACK': lambda: bytes([rb(rng)]),
        'MSG_CS_STATE': lambda: bytes([rng.choice(CS_STATES)]),
        'MSG_CS_DRIVE_ACK': lambda: bytes([rb(rng), rb(rng), rng.randrange(5)]),
        'MSG_CS_ACCESSORY_ACK': lambda: bytes([rb(rng), rb(rng), rng.randrange(5)]),
        'MSG_CS_POM_ACK': lambda: bytes([rb(rng) for _ in range(6)]),
        'MSG_CS_DRIVE_MANUAL': lambda: bytes([rb(rng), rb(rng), rng.choice([0, 2, 3]), rng.randrange(64), rb(rng), rng.randrange(32), rb(rng), rb(rng), rb(rng)]),
        'MSG_CS_DRIVE_EVENT': lambda: bytes([1 if variant == 'error' else rng.choice([0, 2]), rb(rng), rb(rng)]),
        'MSG_CS_ACCESSORY_MANUAL': lambda: bytes([rb(rng), rb(rng), rb(rng)]),
        'MSG_CS_RCPLUS_ACK': lambda: bytes([rb(rng) for _ in range(rng.randrange(2, 9))]),
        'MSG_CS_PROG_STATE': lambda: bytes([rb(rng) for _ in range(5)]),
    }
    return g[name]()

KNOWN_UP = ['MSG_SYS_MAGIC', 'MSG_SYS_PONG', 'MSG_SYS_P_VERSION', 'MSG_SYS_UNIQUE_ID', 'MSG_SYS_SW_VERSION', 'MSG_SYS_ERROR',
            'MSG_SYS_IDENTIFY_STATE', 'MSG_NODETAB_COUNT', 'MSG_NODETAB', 'MSG_PKT_CAPACITY', 'MSG_NODE_NA', 'MSG_NODE_LOST', 'MSG_NODE_NEW',
            'MSG_FW_UPDATE_STAT', 'MSG_FEATURE', 'MSG_FEATURE_NA', 'MSG_FEATURE_COUNT', 'MSG_VENDOR', 'MSG_VENDOR_ACK', 'MSG_STRING',
            'MSG_BM_OCC', 'MSG_BM_FREE', 'MSG_BM_MULTIPLE', 'MSG_BM_ADDRESS', 'MSG_BM_ACCESSORY', 'MSG_BM_CV', 'MSG_BM_SPEED', 'MSG_BM_CURRENT',
            'MSG_BM_XPOM', 'MSG_BM_CONFIDENCE', 'MSG_BM_DYN_STATE', 'MSG_BM_RCPLUS', 'MSG_BM_POSITION', 'MSG_BOOST_STAT', 'MSG_BOOST_CURRENT',
            'MSG_BOOST_DIAGNOSTIC', 'MSG_ACCESSORY_STATE', 'MSG_ACCESSORY_PARA', 'MSG_ACCESSORY_NOTIFY', 'MSG_LC_STAT', 'MSG_LC_NA', 'MSG_LC_CONFIG',
            'MSG_LC_KEY', 'MSG_LC_WAIT', 'MSG_LC_CONFIGX', 'MSG_LC_MACRO_STATE', 'MSG_LC_MACRO', 'MSG_LC_MACRO_PARA', 'MSG_CS_ALLOC_ACK',
            'MSG_CS_STATE', 'MSG_CS_DRIVE_ACK', 'MSG_CS_ACCESSORY_ACK', 'MSG_CS_POM_ACK', 'MSG_CS_DRIVE_MANUAL', 'MSG_CS_DRIVE_EVENT',
            'MSG_CS_ACCESSORY_MANUAL', 'MSG_CS_RCPLUS_ACK', 'MSG_CS_PROG_STATE']

HAS_ERROR_VARIANT = ['MSG_ACCESSORY_STATE', 'MSG_ACCESSORY_NOTIFY', 'MSG_BOOST_STAT', 'MSG_CS_DRIVE_EVENT']
ERROR_CLASS = ['MSG_SYS_ERROR', 'MSG_NODE_NA', 'MSG_FEATURE_NA', 'MSG_LC_NA']
INTERNAL = ['MSG_SYS_MAGIC', 'MSG_NODETAB_COUNT', 'MSG_NODETAB', 'MSG_FEATURE_COUNT', 'MSG_FEATURE']
STATE_TRACKED = ['MSG_PKT_CAPACITY', 'MSG_NODE_LOST', 'MSG_NODE_NEW', 'MSG_STALL', 'MSG_CS_STATE', 'MSG_CS_DRIVE_ACK', 'MSG_CS_ACCESSORY_ACK',
                 'MSG_CS_DRIVE_MANUAL', 'MSG_CS_ACCESSORY_MANUAL', 'MSG_LC_STAT', 'MSG_LC_WAIT', 'MSG_BM_OCC', 'MSG_BM_FREE', 'MSG_BM_MULTIPLE',
                 'MSG_BM_CONFIDENCE', 'MSG_BM_ADDRESS', 'MSG_BM_CURRENT', 'MSG_BM_SPEED', 'MSG_BM_DYN_STATE', 'MSG_BOOST_DIAGNOSTIC',
                 'MSG_ACCESSORY_STATE', 'MSG_ACCESSORY_NOTIFY', 'MSG_BOOST_STAT', 'MSG_CS_DRIVE_EVENT']

def destination(mtype, data, debug):
    """-> set of acceptable single destinations among {'msg','err','int','none'} for a received message"""
    if mtype == C('MSG_STALL'):
        return {'none'}
    if debug:
        return {'msg'}
    names = {C(n): n for n in KNOWN_UP + ['MSG_STALL']}
    n = names.get(mtype)
    if n in ERROR_CLASS:
        return {'err'}
    if n in INTERNAL:
        return {'int'}
    if n in ('MSG_ACCESSORY_STATE', 'MSG_ACCESSORY_NOTIFY'):
        return {'err'} if len(data) >= 4 and data[3] == 0x80 else {'none'}
    if n == 'MSG_BOOST_STAT':
        if data and data[0] in BOOST_ERR:
            return {'err'}
        if data and data[0] in BOOST_OK:
            return {'none'}
        return {'err', 'none'}          # undocumented power states: either single destination
    if n == 'MSG_CS_DRIVE_EVENT':
        return {'err'} if data and data[0] == 1 else {'none'}
    if n == 'MSG_VENDOR':
        return {'none', 'msg'}          # README lists it under the message queue, C07 requires it to drive reverser state
    if n in STATE_TRACKED:
        return {'none'}
    return {'msg'}
